package main

import (
	"encoding/json"
	"flag"
	"fmt"
	"os"
	"os/exec"
	"path/filepath"
	"sort"
	"strings"

	"lvc/vc"
)

func main() {
	if len(os.Args) < 2 {
		fmt.Fprintln(os.Stderr, "usage: lvc <verify|check|list> ...")
		os.Exit(2)
	}
	switch os.Args[1] {
	case "verify":
		cmdVerify(os.Args[2:])
	case "check":
		os.Exit(cmdCheck(os.Args[2:]))
	case "replay":
		os.Exit(cmdReplay(os.Args[2:]))
	case "list":
		cmdList(os.Args[2:])
	case "sweep":
		P, err := vc.Load("/repo", "/verif/engine/externals")
		if err != nil {
			fmt.Fprintln(os.Stderr, err)
			os.Exit(2)
		}
		res := P.Sweep(os.Args[2])
		vc.DischargeAll(res, nil, vc.DischargeOpts{Tier: "quick", TimeoutS: 5, WorkDir: "/verif/work/sweep", Keep: false})
		for _, r := range res {
			nf := 0
			var fails []string
			for _, o := range r.Obligations {
				if o.GroupHead {
					continue
				}
				if o.Failed() {
					nf++
					if len(fails) < 6 {
						fails = append(fails, o.Name+" ["+o.Result.Status+"]")
					}
				}
			}
			fmt.Printf("%-70s obl=%3d fail=%3d unsup=%d\n", r.Func, len(r.Obligations), nf, len(r.Unsupported))
			for _, u := range r.Unsupported {
				fmt.Println("      UNSUP:", u)
			}
			for _, f := range fails {
				fmt.Println("      FAIL:", f)
			}
		}
	case "calltree":
		cmdCallTree(os.Args[2])
	case "locals":
		// prints the table of parameters and named locals of every function under contract (locals.go)
		P, err := vc.Load("/repo", "/verif/engine/externals")
		if err != nil {
			fmt.Fprintln(os.Stderr, err)
			os.Exit(2)
		}
		data, _ := json.MarshalIndent(P.LocalsTable(), "", " ")
		fmt.Println(string(data))
	case "product":
		// prints the generated lockstep products (what the relational obligations are generated from)
		repo := "/repo"
		if len(os.Args) > 2 {
			repo = os.Args[2]
		}
		ov, probs := vc.GenProducts(repo)
		for p, src := range ov {
			fmt.Printf("// ---- %s\n%s\n", p, src)
		}
		for _, pp := range probs {
			fmt.Printf("PROBLEM %s: %s\n", pp.Name, pp.Msg)
		}
	case "ssa":
		P, err := vc.Load("/repo", "/verif/engine/externals")
		if err != nil {
			fmt.Fprintln(os.Stderr, err)
			os.Exit(2)
		}
		for _, f := range P.FindFuncs(os.Args[2]) {
			f.WriteTo(os.Stdout)
		}
	default:
		fmt.Fprintln(os.Stderr, "unknown command", os.Args[1])
		os.Exit(2)
	}
}

func cmdVerify(args []string) {
	fs := flag.NewFlagSet("verify", flag.ExitOnError)
	repo := fs.String("repo", "/repo", "repository")
	ext := fs.String("ext", "/verif/engine/externals", "external contracts dir")
	fn := fs.String("f", "", "function key substring (pkg::name)")
	work := fs.String("work", "/verif/work/dev", "work dir")
	tier := fs.String("tier", "quick", "tier")
	to := fs.Int("t", 10, "timeout s")
	verbose := fs.Bool("v", false, "verbose")
	fs.Parse(args)
	P, err := vc.Load(*repo, *ext)
	if err != nil {
		fmt.Fprintln(os.Stderr, "load:", err)
		os.Exit(2)
	}
	var results []*vc.FuncResult
	for _, f := range P.FindFuncs(*fn) {
		results = append(results, P.VerifyFunc(f))
	}
	vc.DischargeAll(results, nil, vc.DischargeOpts{Tier: *tier, TimeoutS: *to, WorkDir: *work, Keep: true})
	for _, r := range results {
		fmt.Printf("== %s  (%d obligations, %.2fs gen)\n", r.Func, len(r.Obligations), r.Seconds)
		for _, u := range r.Unsupported {
			fmt.Println("   UNSUPPORTED:", u)
		}
		if *verbose {
			for _, a := range r.Assumed {
				fmt.Println("   assumed:", a)
			}
			for _, a := range r.Inlined {
				fmt.Println("   inlined:", a)
			}
		}
		for _, o := range r.Obligations {
			if o.GroupHead {
				continue
			}
			st := "?"
			sv := ""
			if o.Result != nil {
				st = o.Result.Status
				sv = fmt.Sprintf("%s %.2fs", o.Result.Solver, o.Result.Seconds)
			}
			mark := "ok  "
			if o.Failed() {
				mark = "FAIL"
			}
			if *verbose || o.Failed() {
				fmt.Printf("   %s %-8s %-70s %s [%s] %s\n", mark, st, o.Name, o.Pos, sv, o.SMTFile)
				if o.Failed() && o.Result != nil && o.Result.Status == "sat" {
					out := o.Result.Output
					if i := strings.Index(out, "(model"); i > 0 {
						out = out[:i]
					}
					if len(out) > 1500 {
						out = out[:1500]
					}
					fmt.Println("        " + strings.ReplaceAll(out, "\n", "\n        "))
				}
			}
		}
	}
}

func cmdList(args []string) {
	fs := flag.NewFlagSet("list", flag.ExitOnError)
	repo := fs.String("repo", "/repo", "repository")
	ext := fs.String("ext", "/verif/engine/externals", "external contracts dir")
	fs.Parse(args)
	P, err := vc.Load(*repo, *ext)
	if err != nil {
		fmt.Fprintln(os.Stderr, "load:", err)
		os.Exit(2)
	}
	var keys []string
	for k := range P.Contracts {
		keys = append(keys, k)
	}
	sort.Strings(keys)
	for _, k := range keys {
		c := P.Contracts[k]
		fmt.Printf("%s  requires=%d ensures=%d props=%v\n", k, len(c.Requires), len(c.Ensures), c.Props)
	}
}

func cmdCheck(args []string) int {
	fs := flag.NewFlagSet("check", flag.ExitOnError)
	repo := fs.String("repo", "/repo", "repository")
	verif := fs.String("verif", "/verif", "verif dir")
	prop := fs.String("p", "", "property id")
	tier := fs.String("tier", "", "quick|thorough")
	keep := fs.Bool("keep", false, "keep SMT files")
	to := fs.Int("t", 0, "solver timeout (s)")
	noev := fs.Bool("noevidence", false, "do not write the evidence file (must-fail runs)")
	deps := fs.Bool("deps", false, "audit: also verify the callees whose contracts the proofs apply")
	fs.Parse(args)
	if *tier == "" {
		*tier = os.Getenv("VERIF_TIER")
	}
	if *tier == "" {
		*tier = "quick"
	}
	if *to == 0 {
		*to = 30
		if *tier == "thorough" {
			*to = 60
		}
	}
	var seed int64
	fmt.Sscan(os.Getenv("VERIF_SEED"), &seed)
	P, err := vc.Load(*repo, *verif+"/engine/externals")
	if err != nil {
		fmt.Println("error: cannot load /repo with -tags=verif:", err)
		fmt.Printf("VIOLATION property=%s replay=none:load-failure no-failing-input-found\n", *prop)
		return 1
	}
	return P.Check(vc.CheckOpts{Property: *prop, Tier: *tier, Seed: seed, VerifDir: *verif, TimeoutS: *to, Keep: *keep, Deps: *deps, NoEvidence: *noev,
		CheckerCmd: "bin/lvc check -p " + *prop + " -tier " + *tier})
}

// calltree prints the in-package static call tree of a function (development aid).
func cmdCallTree(root string) {
	P, err := vc.Load("/repo", "/verif/engine/externals")
	if err != nil {
		fmt.Fprintln(os.Stderr, err)
		os.Exit(2)
	}
	for _, l := range P.CallTree(root) {
		fmt.Println(l)
	}
}

// cmdReplay re-runs a replay file produced by a failed check against the current /repo.
//
//	*_replay_test.go : the Go test built from the solver's model is injected through its overlay file and run;
//	                   exit 1 if the violation reproduces, 0 if it does not.
//	*.txt            : the obligation had no replayable input (no-failing-input-found): the file - failed
//	                   obligation, clause, solver output - is printed; exit 1 (the report stands, nothing to run).
func cmdReplay(args []string) int {
	if len(args) != 1 {
		fmt.Println("usage: lvc replay <path printed in a VIOLATION line>")
		return 2
	}
	path := args[0]
	data, err := os.ReadFile(path)
	if err != nil {
		fmt.Println("error:", err)
		return 2
	}
	if !strings.HasSuffix(path, "_replay_test.go") {
		fmt.Print(string(data))
		fmt.Println("replay: this obligation has no replayable input (no-failing-input-found); the failed obligation and the verifier's output are above")
		return 1
	}
	if ap, err := filepath.Abs(path); err == nil {
		path = ap
	}
	ov := strings.TrimSuffix(path, "_replay_test.go") + "_overlay.json"
	var m struct{ Replace map[string]string }
	od, err := os.ReadFile(ov)
	if err != nil || json.Unmarshal(od, &m) != nil || len(m.Replace) != 1 {
		fmt.Println("error: overlay file missing or malformed:", ov)
		return 2
	}
	pkgDir := ""
	for k := range m.Replace {
		pkgDir = filepath.Dir(k)
	}
	cmd := exec.Command("bash", "-c", fmt.Sprintf("ulimit -v 8000000; cd %q && go test -tags=verif -overlay %q -vet=off -count=1 -timeout 60s -run '^TestLvcReplay$' .", pkgDir, ov))
	cmd.Env = append(os.Environ(), "GOFLAGS=", "GOPROXY=off", "GOSUMDB=off", "GOTOOLCHAIN=local")
	out, _ := cmd.CombinedOutput()
	fmt.Print(string(out))
	if strings.Contains(string(out), "REPRODUCED") {
		fmt.Println("replay: REPRODUCED on the current tree")
		return 1
	}
	fmt.Println("replay: not reproduced on the current tree")
	return 0
}
