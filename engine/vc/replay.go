package vc

import (
	"encoding/json"
	"fmt"
	"go/types"
	"os"
	"os/exec"
	"path/filepath"
	"regexp"
	"strings"
	"time"

	"golang.org/x/tools/go/ssa"
)

// parseValues extracts "(sym value)" pairs from a get-value answer.
func parseValues(out string) map[string]string {
	m := map[string]string{}
	i := strings.Index(out, "((")
	if i < 0 {
		return m
	}
	s := out[i+1:]
	// sequence of (name value) at depth 1
	d := 0
	start := -1
	for k := 0; k < len(s); k++ {
		switch s[k] {
		case '(':
			if d == 0 {
				start = k
			}
			d++
		case ')':
			d--
			if d == 0 && start >= 0 {
				item := strings.TrimSpace(s[start+1 : k])
				sp := strings.IndexAny(item, " \n")
				if strings.HasPrefix(item, "(") {
					// compound term: find its closing parenthesis
					dd := 0
					for q := 0; q < len(item); q++ {
						if item[q] == '|' {
							if j := strings.IndexByte(item[q+1:], '|'); j >= 0 {
								q += j + 1
								continue
							}
						}
						if item[q] == '(' {
							dd++
						} else if item[q] == ')' {
							dd--
							if dd == 0 {
								sp = q + 1
								break
							}
						}
					}
				} else if strings.HasPrefix(item, "|") {
					if j := strings.IndexByte(item[1:], '|'); j >= 0 {
						sp = j + 2
					}
				}
				if sp > 0 && sp < len(item) {
					m[strings.TrimSpace(item[:sp])] = strings.TrimSpace(item[sp:])
				}
				start = -1
			}
			if d < 0 {
				return m
			}
		}
	}
	return m
}

var intRe = regexp.MustCompile(`^\(?-?\s*\d+\)?$`)

func smtInt(v string) (string, bool) {
	v = strings.TrimSpace(v)
	if strings.HasPrefix(v, "(- ") && strings.HasSuffix(v, ")") {
		return "-" + strings.TrimSpace(v[3:len(v)-1]), true
	}
	for _, ch := range v {
		if ch < '0' || ch > '9' {
			return "", false
		}
	}
	return v, v != ""
}

func fieldsOfCtor(v, ctor string) []string {
	v = strings.TrimSpace(v)
	if !strings.HasPrefix(v, "("+ctor+" ") {
		return nil
	}
	body := v[len(ctor)+2 : len(v)-1]
	var out []string
	d := 0
	cur := ""
	for _, ch := range body {
		switch {
		case ch == '(':
			d++
			cur += string(ch)
		case ch == ')':
			d--
			cur += string(ch)
		case ch == ' ' && d == 0:
			if cur != "" {
				out = append(out, cur)
			}
			cur = ""
		default:
			cur += string(ch)
		}
	}
	if cur != "" {
		out = append(out, cur)
	}
	return out
}

func qualifier(pkg *types.Package, imports map[string]string) types.Qualifier {
	return func(p *types.Package) string {
		if p == pkg {
			return ""
		}
		imports[p.Path()] = p.Name()
		return p.Name()
	}
}

// tryReplay builds and runs an in-package overlay test from the solver's model.
// Only functions without receiver whose parameters are scalars, strings, byte slices
// or pointers to arrays are replayed automatically; property-specific templates
// handle some method families. Returns the replay file path ("" when not replayable).
func (P *Program) tryReplay(dir, prop string, r *FuncResult, o *Obligation, log *strings.Builder) string {
	if o.Result == nil || (o.Result.Status != "sat" && !o.CandidateModel) {
		return ""
	}
	fn := r.ctx.fn
	if fn.Pkg == nil {
		return ""
	}
	vals := parseValues(o.Result.Output)
	if tpl := P.templateReplay(dir, prop, r, o, vals, log); tpl != "" {
		return tpl
	}
	if fn.Signature.Recv() != nil || len(fn.FreeVars) > 0 {
		fmt.Fprintf(log, "replay: no automatic template for methods/closures\n")
		return ""
	}
	imports := map[string]string{"testing": "testing", "fmt": "fmt"}
	q := qualifier(fn.Pkg.Pkg, imports)
	var decl, args []string
	for i, p := range fn.Params {
		name := fmt.Sprintf("a%d", i)
		ts := types.TypeString(p.Type(), q)
		mv := vals[fmt.Sprintf("p_%s!%d", sanitizeHint(p.Name()), 0)]
		// find by prefix (symbol numbers vary)
		for k, v := range vals {
			if strings.HasPrefix(k, "p_"+sanitizeHint(p.Name())+"!") {
				mv = v
			}
		}
		switch u := p.Type().Underlying().(type) {
		case *types.Basic:
			switch {
			case u.Info()&types.IsInteger != 0:
				iv, ok := smtInt(mv)
				if !ok {
					iv = "0"
				}
				decl = append(decl, fmt.Sprintf("var %s %s = %s", name, ts, castInt(ts, iv, u)))
			case u.Info()&types.IsBoolean != 0:
				b := "false"
				if strings.TrimSpace(mv) == "true" {
					b = "true"
				}
				decl = append(decl, fmt.Sprintf("var %s %s = %s", name, ts, b))
			case u.Info()&types.IsString != 0:
				n := "0"
				if f := fieldsOfCtor(mv, "mkStr"); len(f) == 3 {
					if iv, ok := smtInt(f[2]); ok {
						n = iv
					}
				}
				imports["strings"] = "strings"
				decl = append(decl, fmt.Sprintf("var %s %s = %s(strings.Repeat(\"x\", clampLen(%s)))", name, ts, ts, n))
			default:
				fmt.Fprintf(log, "replay: parameter %s of type %s not renderable\n", p.Name(), ts)
				return ""
			}
		case *types.Slice:
			if b, ok := u.Elem().Underlying().(*types.Basic); ok && b.Kind() == types.Uint8 {
				ln, cp := "0", "0"
				if f := fieldsOfCtor(mv, "mkSlice"); len(f) == 4 {
					if iv, ok := smtInt(f[2]); ok {
						ln = iv
					}
					if iv, ok := smtInt(f[3]); ok {
						cp = iv
					}
				}
				decl = append(decl, fmt.Sprintf("var %s %s = make(%s, clampLen(%s), clampLen(%s))", name, ts, ts, ln, cp))
			} else {
				fmt.Fprintf(log, "replay: slice parameter %s not renderable\n", p.Name())
				return ""
			}
		case *types.Pointer:
			if _, ok := u.Elem().Underlying().(*types.Array); ok {
				decl = append(decl, fmt.Sprintf("var %s = new(%s)", name, types.TypeString(u.Elem(), q)))
			} else {
				fmt.Fprintf(log, "replay: pointer parameter %s not renderable\n", p.Name())
				return ""
			}
		default:
			fmt.Fprintf(log, "replay: parameter %s of type %s not renderable\n", p.Name(), ts)
			return ""
		}
		args = append(args, name)
	}
	call := fmt.Sprintf("%s(%s)", fn.Name(), strings.Join(args, ", "))
	nres := fn.Signature.Results().Len()
	var lhs []string
	for i := 0; i < nres; i++ {
		lhs = append(lhs, fmt.Sprintf("r%d", i))
	}
	body := ""
	if nres > 0 {
		body = strings.Join(lhs, ", ") + " := " + call + "\n"
		for _, l := range lhs {
			body += "\t_ = " + l + "\n"
		}
	} else {
		body = call + "\n"
	}
	check := ""
	if o.Kind == "post" && nres >= 1 && goExpressible(o.Src) {
		expr := o.Src
		// bind parameter names and result names
		pre := ""
		for i, p := range fn.Params {
			pre += fmt.Sprintf("\t%s := a%d; _ = %s\n", p.Name(), i, p.Name())
		}
		if nres == 1 {
			pre += "\tresult := r0; _ = result\n"
			if nm := fn.Signature.Results().At(0).Name(); nm != "" && nm != "_" {
				pre += fmt.Sprintf("\t%s := r0; _ = %s\n", nm, nm)
			}
		} else {
			for i := 0; i < nres; i++ {
				pre += fmt.Sprintf("\tresult%d := r%d; _ = result%d\n", i, i, i)
				if nm := fn.Signature.Results().At(i).Name(); nm != "" && nm != "_" {
					pre += fmt.Sprintf("\t%s := r%d; _ = %s\n", nm, i, nm)
				}
			}
		}
		check = pre + fmt.Sprintf("\tif !(%s) {\n\t\tt.Fatalf(\"REPRODUCED: postcondition %%s violated\", %q)\n\t}\n", expr, o.Src)
	}
	var imp []string
	for path, name := range imports {
		_ = name
		imp = append(imp, fmt.Sprintf("\t%q", path))
	}
	src := fmt.Sprintf(`package %s

// Replay of failed obligation %s
// (generated by lvc from the solver model; injected with go test -overlay)

import (
%s
)

func clampLen(n int) int {
	if n < 0 {
		return 0
	}
	if n > 1<<20 {
		return 1 << 20
	}
	return n
}

func implies(a, b bool) bool { return !a || b }

var _ = fmt.Sprint

func TestLvcReplay(t *testing.T) {
	defer func() {
		if r := recover(); r != nil {
			t.Fatalf("REPRODUCED: panic: %%v", r)
		}
	}()
	%s
	%s
%s}
`, fn.Pkg.Pkg.Name(), o.Name, strings.Join(imp, "\n"), strings.Join(decl, "\n\t"), body, check)
	return P.runReplay(dir, fn, o, src, log)
}

func goExpressible(src string) bool {
	for _, bad := range []string{"old(", "forall(", "exists(", "typeis(", "dyn(", "has(", "fresh(", "ghost.", "isnil(", "fd"} {
		if strings.Contains(src, bad) {
			return false
		}
	}
	return true
}

func castInt(ts, iv string, u *types.Basic) string {
	if u.Info()&types.IsUnsigned != 0 || !strings.HasPrefix(iv, "-") {
		return iv
	}
	if iv == "-9223372036854775808" {
		return ts + "(-9223372036854775807 - 1)"
	}
	return iv
}

func sanitizeHint(h string) string {
	return strings.Map(func(r rune) rune {
		if r >= 'a' && r <= 'z' || r >= 'A' && r <= 'Z' || r >= '0' && r <= '9' || r == '_' || r == '.' {
			return r
		}
		return '_'
	}, h)
}

// runReplay injects src as an in-package test through -overlay and runs it against /repo.
func (P *Program) runReplay(dir string, fn *ssa.Function, o *Obligation, src string, log *strings.Builder) string {
	pos := P.Prog.Fset.Position(fn.Pos())
	pkgDir := filepath.Dir(pos.Filename)
	if pkgDir == "" || pkgDir == "." {
		return ""
	}
	os.MkdirAll(dir, 0o755)
	base := safeFile(o.Name)
	testPath := filepath.Join(dir, base+"_replay_test.go")
	os.WriteFile(testPath, []byte(src), 0o644)
	ov := map[string]any{"Replace": map[string]string{filepath.Join(pkgDir, "zz_lvc_replay_test.go"): testPath}}
	ovData, _ := json.Marshal(ov)
	ovPath := filepath.Join(dir, base+"_overlay.json")
	os.WriteFile(ovPath, ovData, 0o644)
	cmd := exec.Command("bash", "-c", fmt.Sprintf("ulimit -v 8000000; cd %q && go test -tags=verif -overlay %q -vet=off -count=1 -timeout 60s -run '^TestLvcReplay$' .", pkgDir, ovPath))
	cmd.Env = append(os.Environ(), "GOFLAGS=", "GOPROXY=off", "GOSUMDB=off", "GOTOOLCHAIN=local")
	start := time.Now()
	out, _ := cmd.CombinedOutput()
	fmt.Fprintf(log, "---- replay on the real code (%s, %.1fs) ----\ncommand: cd %s && go test -tags=verif -overlay %s -vet=off -count=1 -timeout 60s -run '^TestLvcReplay$' .\n%s\n", testPath, time.Since(start).Seconds(), pkgDir, ovPath, string(out))
	if strings.Contains(string(out), "REPRODUCED") {
		o.Replayed = true
		fmt.Fprintf(log, "replay: REPRODUCED on the real code\n")
		return testPath
	}
	fmt.Fprintf(log, "replay: the model did not reproduce on the real code\n")
	return ""
}

// templateReplay: property specific replay templates (see templates.go).
func (P *Program) templateReplay(dir, prop string, r *FuncResult, o *Obligation, vals map[string]string, log *strings.Builder) string {
	if t, ok := replayTemplates[prop]; ok {
		return t(P, dir, r, o, vals, log)
	}
	return ""
}

var replayTemplates = map[string]func(P *Program, dir string, r *FuncResult, o *Obligation, vals map[string]string, log *strings.Builder) string{}
