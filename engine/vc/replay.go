package vc

import (
	"encoding/json"
	"fmt"
	"go/types"
	"os"
	"os/exec"
	"path/filepath"
	"regexp"
	"sort"
	"strings"
	"time"

	"golang.org/x/tools/go/ssa"
)

// parseValues extracts "(sym value)" pairs from a get-value answer.
func parseValues(out string) map[string]string {
	m := map[string]string{}
	i := strings.Index(out, "((")
	if i < 0 {
		return m
	}
	s := out[i+1:]
	// sequence of (name value) at depth 1
	d := 0
	start := -1
	for k := 0; k < len(s); k++ {
		switch s[k] {
		case '(':
			if d == 0 {
				start = k
			}
			d++
		case ')':
			d--
			if d == 0 && start >= 0 {
				item := strings.TrimSpace(s[start+1 : k])
				sp := strings.IndexAny(item, " \n")
				if strings.HasPrefix(item, "(") {
					// compound term: find its closing parenthesis
					dd := 0
					for q := 0; q < len(item); q++ {
						if item[q] == '|' {
							if j := strings.IndexByte(item[q+1:], '|'); j >= 0 {
								q += j + 1
								continue
							}
						}
						if item[q] == '(' {
							dd++
						} else if item[q] == ')' {
							dd--
							if dd == 0 {
								sp = q + 1
								break
							}
						}
					}
				} else if strings.HasPrefix(item, "|") {
					if j := strings.IndexByte(item[1:], '|'); j >= 0 {
						sp = j + 2
					}
				}
				if sp > 0 && sp < len(item) {
					m[strings.TrimSpace(item[:sp])] = strings.TrimSpace(item[sp:])
				}
				start = -1
			}
			if d < 0 {
				return m
			}
		}
	}
	return m
}

var intRe = regexp.MustCompile(`^\(?-?\s*\d+\)?$`)

func smtInt(v string) (string, bool) {
	v = strings.TrimSpace(v)
	if strings.HasPrefix(v, "(- ") && strings.HasSuffix(v, ")") {
		return "-" + strings.TrimSpace(v[3:len(v)-1]), true
	}
	for _, ch := range v {
		if ch < '0' || ch > '9' {
			return "", false
		}
	}
	return v, v != ""
}

func fieldsOfCtor(v, ctor string) []string {
	v = strings.TrimSpace(v)
	if !strings.HasPrefix(v, "("+ctor+" ") {
		return nil
	}
	body := v[len(ctor)+2 : len(v)-1]
	var out []string
	d := 0
	cur := ""
	for _, ch := range body {
		switch {
		case ch == '(':
			d++
			cur += string(ch)
		case ch == ')':
			d--
			cur += string(ch)
		case ch == ' ' && d == 0:
			if cur != "" {
				out = append(out, cur)
			}
			cur = ""
		default:
			cur += string(ch)
		}
	}
	if cur != "" {
		out = append(out, cur)
	}
	return out
}

func qualifier(pkg *types.Package, imports map[string]string) types.Qualifier {
	return func(p *types.Package) string {
		if p == pkg {
			return ""
		}
		imports[p.Path()] = p.Name()
		return p.Name()
	}
}

// tryReplay builds and runs an in-package overlay test from the solver's model.
// Only functions without receiver whose parameters are scalars, strings, byte slices
// or pointers to arrays are replayed automatically; property-specific templates
// handle some method families. Returns the replay file path ("" when not replayable).
func (P *Program) tryReplay(dir, prop string, r *FuncResult, o *Obligation, log *strings.Builder) string {
	// failed relational obligations: no model is needed, a differential search on the two real functions
	// looks for a concrete input on which they disagree
	if t, ok := searchTemplates[prop]; ok && o.Result != nil {
		if p := t(P, dir, r, o, log); p != "" {
			return p
		}
	}
	if o.Result == nil || (o.Result.Status != "sat" && !o.CandidateModel) {
		return ""
	}
	fn := r.ctx.fn
	if fn.Pkg == nil {
		return ""
	}
	vals := parseValues(o.Result.Output)
	if tpl := P.templateReplay(dir, prop, r, o, vals, log); tpl != "" {
		return tpl
	}
	if len(fn.FreeVars) > 0 {
		fmt.Fprintf(log, "replay: no automatic template for closures\n")
		return ""
	}
	imports := map[string]string{"testing": "testing", "fmt": "fmt"}
	q := qualifier(fn.Pkg.Pkg, imports)
	var decl, args []string
	isMethod := fn.Signature.Recv() != nil
	for i, p := range fn.Params {
		name := fmt.Sprintf("a%d", i)
		ts := types.TypeString(p.Type(), q)
		psym := ""
		mv := ""
		for k, v := range vals {
			if strings.HasPrefix(k, "p_"+sanitizeHint(p.Name())+"!") {
				mv = v
				psym = k
			}
		}
		switch u := p.Type().Underlying().(type) {
		case *types.Basic:
			switch {
			case u.Info()&types.IsInteger != 0:
				iv, ok := smtInt(mv)
				if !ok {
					iv = "0"
				}
				decl = append(decl, fmt.Sprintf("var %s %s = %s", name, ts, castInt(ts, iv, u)))
			case u.Info()&types.IsBoolean != 0:
				b := "false"
				if strings.TrimSpace(mv) == "true" {
					b = "true"
				}
				decl = append(decl, fmt.Sprintf("var %s %s = %s", name, ts, b))
			case u.Info()&types.IsString != 0:
				n := "0"
				if f := fieldsOfCtor(mv, "mkStr"); len(f) == 3 {
					if iv, ok := smtInt(f[2]); ok {
						n = iv
					}
				}
				imports["strings"] = "strings"
				decl = append(decl, fmt.Sprintf("var %s %s = %s(strings.Repeat(\"x\", clampLen(%s)))", name, ts, ts, n))
			default:
				fmt.Fprintf(log, "replay: parameter %s of type %s not renderable\n", p.Name(), ts)
				return ""
			}
		case *types.Slice:
			ln, cp := "0", "0"
			var f []string
			if f = fieldsOfCtor(mv, "mkSlice"); len(f) == 4 {
				if iv, ok := smtInt(f[2]); ok {
					ln = iv
				}
				if iv, ok := smtInt(f[3]); ok {
					cp = iv
				}
			}
			eb, isBasic := u.Elem().Underlying().(*types.Basic)
			if !isBasic || eb.Info()&(types.IsInteger|types.IsBoolean) == 0 {
				if ln == "0" {
					decl = append(decl, fmt.Sprintf("var %s %s", name, ts))
					break
				}
				fmt.Fprintf(log, "replay: slice parameter %s not renderable\n", p.Name())
				return ""
			}
			decl = append(decl, fmt.Sprintf("var %s %s = make(%s, clampLen(%s), clampLen(%s))", name, ts, ts, ln, cp))
			// element values requested from the model: (select (select |E:..@0| (lref p)) (+ (loff p) k))
			for k := 0; k < 8; k++ {
				key := fmt.Sprintf("(select (select |E:%s@0| (lref %s)) (+ (loff %s) %d))", typeName(u.Elem()), psym, psym, k)
				alt := fmt.Sprintf("(select (select E:%s@0 (lref %s)) (+ (loff %s) %d))", typeName(u.Elem()), psym, psym, k)
				v, ok := vals[key]
				if !ok {
					v, ok = vals[alt]
				}
				if !ok {
					continue
				}
				if eb.Info()&types.IsBoolean != 0 {
					decl = append(decl, fmt.Sprintf("if len(%s) > %d { %s[%d] = %s }", name, k, name, k, strings.TrimSpace(v)))
				} else if iv, ok := smtInt(v); ok {
					decl = append(decl, fmt.Sprintf("if len(%s) > %d { %s[%d] = %s }", name, k, name, k, iv))
				}
			}
		case *types.Pointer:
			if _, ok := u.Elem().Underlying().(*types.Array); ok {
				decl = append(decl, fmt.Sprintf("var %s = new(%s)", name, types.TypeString(u.Elem(), q)))
			} else if stt, ok := u.Elem().Underlying().(*types.Struct); ok {
				if iv, ok := smtInt(mv); ok && iv == "0" {
					decl = append(decl, fmt.Sprintf("var %s %s", name, ts))
					break
				}
				decl = append(decl, fmt.Sprintf("var %s = new(%s)", name, types.TypeString(u.Elem(), q)))
				decl = append(decl, structFieldAssigns(name, "F:"+typeName(u.Elem()), stt, psym, vals, q)...)
			} else {
				fmt.Fprintf(log, "replay: pointer parameter %s not renderable\n", p.Name())
				return ""
			}
		case *types.Interface:
			if ts == "context.Context" {
				imports["context"] = "context"
				decl = append(decl, fmt.Sprintf("var %s %s = context.Background()", name, ts))
			} else {
				decl = append(decl, fmt.Sprintf("var %s %s", name, ts))
			}
		default:
			fmt.Fprintf(log, "replay: parameter %s of type %s not renderable\n", p.Name(), ts)
			return ""
		}
		args = append(args, name)
	}
	variadic := fn.Signature.Variadic()
	var call string
	callArgs := append([]string{}, args...)
	if isMethod {
		callArgs = callArgs[1:]
	}
	if variadic && len(callArgs) > 0 {
		callArgs[len(callArgs)-1] += "..."
	}
	if isMethod {
		call = fmt.Sprintf("%s.%s(%s)", args[0], fn.Name(), strings.Join(callArgs, ", "))
	} else {
		call = fmt.Sprintf("%s(%s)", fn.Name(), strings.Join(callArgs, ", "))
	}
	nres := fn.Signature.Results().Len()
	var lhs []string
	for i := 0; i < nres; i++ {
		lhs = append(lhs, fmt.Sprintf("r%d", i))
	}
	// parameter names visible to the clause
	pre := ""
	for i, p := range fn.Params {
		if p.Name() != "" && p.Name() != "_" {
			pre += fmt.Sprintf("\t%s := a%d; _ = %s\n", p.Name(), i, p.Name())
		}
	}
	check := ""
	oldDecl := ""
	// preconditions must hold for the rendered input, otherwise the run proves nothing
	reqGuard := ""
	if r.Contract != nil {
		for _, rq := range r.Contract.Requires {
			if !goExpressible(rq.Src) {
				fmt.Fprintf(log, "replay: precondition %q is not expressible in Go; no automatic replay\n", rq.Src)
				return ""
			}
			reqGuard += fmt.Sprintf("\tif !(%s) {\n\t\tt.Skip(\"precondition not met by the rendered input\")\n\t}\n", rq.Src)
		}
	}
	if o.Kind == "post" && goExpressible(stripOld(o.Src)) {
		expr, olds := extractOld(o.Src)
		for i, oe := range olds {
			oldDecl += fmt.Sprintf("\t_old%d := %s; _ = _old%d\n", i, oe, i)
		}
		post := ""
		if nres == 1 {
			post += "\tresult := r0; _ = result\n"
			if nm := fn.Signature.Results().At(0).Name(); nm != "" && nm != "_" {
				post += fmt.Sprintf("\t%s := r0; _ = %s\n", nm, nm)
			}
		} else {
			for i := 0; i < nres; i++ {
				post += fmt.Sprintf("\tresult%d := r%d; _ = result%d\n", i, i, i)
				if nm := fn.Signature.Results().At(i).Name(); nm != "" && nm != "_" {
					post += fmt.Sprintf("\t%s := r%d; _ = %s\n", nm, i, nm)
				}
			}
		}
		check = post + fmt.Sprintf("\tif !(%s) {\n\t\tt.Fatalf(\"REPRODUCED: postcondition %%s violated\", %q)\n\t}\n", expr, o.Src)
	}
	body := pre + reqGuard + oldDecl
	if nres > 0 {
		body += "\t" + strings.Join(lhs, ", ") + " := " + call + "\n"
		for _, l := range lhs {
			body += "\t_ = " + l + "\n"
		}
	} else {
		body += "\t" + call + "\n"
	}
	var imp []string
	for path := range imports {
		imp = append(imp, fmt.Sprintf("\t%q", path))
	}
	sort.Strings(imp)
	src := fmt.Sprintf(`package %s

// Replay of failed obligation %s
// (generated by lvc from the solver model; injected with go test -overlay)

import (
%s
)

func clampLen(n int) int {
	if n < 0 {
		return 0
	}
	if n > 1<<20 {
		return 1 << 20
	}
	return n
}

func implies(a, b bool) bool { return !a || b }

func ite[T any](c bool, a, b T) T {
	if c {
		return a
	}
	return b
}

var _ = fmt.Sprint

func TestLvcReplay(t *testing.T) {
	defer func() {
		if r := recover(); r != nil {
			t.Fatalf("REPRODUCED: panic: %%v", r)
		}
	}()
	%s
%s%s}
`, fn.Pkg.Pkg.Name(), o.Name, strings.Join(imp, "\n"), strings.Join(decl, "\n\t"), body, check)
	return P.runReplay(dir, fn, o, src, log)
}

// structFieldAssigns renders "name.f = v" for the scalar fields whose pre-state value is in the model.
func structFieldAssigns(name, comp string, stt *types.Struct, psym string, vals map[string]string, q types.Qualifier) []string {
	var out []string
	var walk func(prefix, cprefix string, st *types.Struct)
	walk = func(prefix, cprefix string, st *types.Struct) {
		for i := 0; i < st.NumFields(); i++ {
			f := st.Field(i)
			if inner, ok := f.Type().Underlying().(*types.Struct); ok {
				walk(prefix+"."+f.Name(), cprefix+"."+f.Name(), inner)
				continue
			}
			b, ok := f.Type().Underlying().(*types.Basic)
			if !ok || b.Info()&(types.IsInteger|types.IsBoolean) == 0 {
				continue
			}
			leaf := cprefix + "." + f.Name() + "@0"
			var v string
			found := false
			for _, key := range []string{"(select |" + leaf + "| " + psym + ")", "(select " + leaf + " " + psym + ")"} {
				if x, ok := vals[key]; ok {
					v, found = x, true
				}
			}
			if !found {
				continue
			}
			if b.Info()&types.IsBoolean != 0 {
				out = append(out, fmt.Sprintf("%s%s.%s = %s", name, prefix, f.Name(), strings.TrimSpace(v)))
			} else if iv, ok := smtInt(v); ok {
				out = append(out, fmt.Sprintf("%s%s.%s = %s(%s)", name, prefix, f.Name(), types.TypeString(f.Type(), q), iv))
			}
		}
	}
	walk("", comp, stt)
	return out
}

// extractOld replaces old(e) by _oldK and returns the inner expressions.
func extractOld(src string) (string, []string) {
	var olds []string
	var sb strings.Builder
	for i := 0; i < len(src); {
		if strings.HasPrefix(src[i:], "old(") && (i == 0 || !isIdentChar(src[i-1])) {
			d := 0
			j := i + 3
			for ; j < len(src); j++ {
				if src[j] == '(' {
					d++
				} else if src[j] == ')' {
					d--
					if d == 0 {
						break
					}
				}
			}
			olds = append(olds, src[i+4:j])
			fmt.Fprintf(&sb, "_old%d", len(olds)-1)
			i = j + 1
			continue
		}
		sb.WriteByte(src[i])
		i++
	}
	return sb.String(), olds
}

func stripOld(src string) string {
	e, _ := extractOld(src)
	return e
}

func goExpressible(src string) bool {
	for _, bad := range []string{"old(", "forall(", "exists(", "typeis(", "dyn(", "has(", "fresh(", "ghost.", "isnil(", "fd"} {
		if strings.Contains(src, bad) {
			return false
		}
	}
	return true
}

func castInt(ts, iv string, u *types.Basic) string {
	if u.Info()&types.IsUnsigned != 0 || !strings.HasPrefix(iv, "-") {
		return iv
	}
	if iv == "-9223372036854775808" {
		return ts + "(-9223372036854775807 - 1)"
	}
	return iv
}

func sanitizeHint(h string) string {
	return strings.Map(func(r rune) rune {
		if r >= 'a' && r <= 'z' || r >= 'A' && r <= 'Z' || r >= '0' && r <= '9' || r == '_' || r == '.' {
			return r
		}
		return '_'
	}, h)
}

// runReplay injects src as an in-package test through -overlay and runs it against /repo.
func (P *Program) runReplay(dir string, fn *ssa.Function, o *Obligation, src string, log *strings.Builder) string {
	pos := P.Prog.Fset.Position(fn.Pos())
	pkgDir := filepath.Dir(pos.Filename)
	if pkgDir == "" || pkgDir == "." {
		return ""
	}
	os.MkdirAll(dir, 0o755)
	base := safeFile(o.Name)
	testPath := filepath.Join(dir, base+"_replay_test.go")
	os.WriteFile(testPath, []byte(src), 0o644)
	ov := map[string]any{"Replace": map[string]string{filepath.Join(pkgDir, "zz_lvc_replay_test.go"): testPath}}
	ovData, _ := json.Marshal(ov)
	ovPath := filepath.Join(dir, base+"_overlay.json")
	os.WriteFile(ovPath, ovData, 0o644)
	cmd := exec.Command("bash", "-c", fmt.Sprintf("ulimit -v 8000000; cd %q && go test -tags=verif -overlay %q -vet=off -count=1 -timeout 60s -run '^TestLvcReplay$' .", pkgDir, ovPath))
	cmd.Env = append(os.Environ(), "GOFLAGS=", "GOPROXY=off", "GOSUMDB=off", "GOTOOLCHAIN=local")
	start := time.Now()
	out, _ := cmd.CombinedOutput()
	fmt.Fprintf(log, "---- replay on the real code (%s, %.1fs) ----\ncommand: cd %s && go test -tags=verif -overlay %s -vet=off -count=1 -timeout 60s -run '^TestLvcReplay$' .\n%s\n", testPath, time.Since(start).Seconds(), pkgDir, ovPath, string(out))
	if strings.Contains(string(out), "REPRODUCED") {
		o.Replayed = true
		fmt.Fprintf(log, "replay: REPRODUCED on the real code\n")
		return testPath
	}
	fmt.Fprintf(log, "replay: the model did not reproduce on the real code\n")
	return ""
}

// templateReplay: property specific replay templates (see templates.go).
func (P *Program) templateReplay(dir, prop string, r *FuncResult, o *Obligation, vals map[string]string, log *strings.Builder) string {
	if t, ok := replayTemplates[prop]; ok {
		return t(P, dir, r, o, vals, log)
	}
	return ""
}

var searchTemplates = map[string]func(P *Program, dir string, r *FuncResult, o *Obligation, log *strings.Builder) string{}

var replayTemplates = map[string]func(P *Program, dir string, r *FuncResult, o *Obligation, vals map[string]string, log *strings.Builder) string{}
