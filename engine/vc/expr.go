package vc

import (
	"fmt"
	"go/ast"
	"go/constant"
	"go/token"
	"go/types"
	"os"
	"strconv"
	"strings"

	"golang.org/x/tools/go/ssa"
)

// Env is the evaluation environment of a contract expression.
type Env struct {
	c        *Ctx
	fr       *Frame
	fn       *ssa.Function // function whose scope resolves names (callee at call sites)
	st       *State
	old      *State
	vars     map[string]*Val // explicit bindings: parameters (entry values), results, bound variables
	cells    bool            // resolve names to the current value of local variables first
	fd       string
	loopHead *ssa.BasicBlock
	noRename bool
}

func (e *Env) with(name string, v *Val) *Env {
	n := *e
	n.vars = map[string]*Val{}
	for k, x := range e.vars {
		n.vars[k] = x
	}
	n.vars[name] = v
	return &n
}

// evalClause evaluates a loop invariant / at-assert inside frame fr at state st.
func (c *Ctx) evalClause(fr *Frame, st *State, cl *Clause, extra map[string]*Val) string {
	v := c.evalExpr(fr, st, cl, extra)
	if v == nil || sortOf(v.T) != "Bool" {
		c.unsupported("clause is not boolean: %s", cl.Src)
		return "true"
	}
	return v.Term
}

func (c *Ctx) evalExpr(fr *Frame, st *State, cl *Clause, extra map[string]*Val) *Val {
	env := &Env{c: c, fr: fr, fn: fr.fn, st: st, old: fr.old, vars: map[string]*Val{}, cells: true, fd: fr.fd, loopHead: c.curLoopHead}
	for i, p := range fr.fn.Params {
		if i < len(fr.params) {
			env.vars["old:"+p.Name()] = fr.params[i]
		}
	}
	for k, v := range extra {
		env.vars[k] = v
	}
	return env.evalTop(cl)
}

func (e *Env) evalTop(cl *Clause) (res *Val) {
	defer func() {
		if r := recover(); r != nil {
			if ee, ok := r.(evalError); ok {
				e.c.unsupported("contract expression %q (%s:%d): %s", cl.Src, cl.File, cl.Line, string(ee))
				res = boolVal("true")
				return
			}
			panic(r)
		}
	}()
	return e.eval(cl.Expr)
}

type evalError string

func fail(format string, a ...any) {
	panic(evalError(fmt.Sprintf(format, a...)))
}

func (e *Env) pkg() *ssa.Package {
	fn := e.fn
	for fn != nil {
		if fn.Pkg != nil {
			return fn.Pkg
		}
		if fn.Origin() != nil && fn.Origin().Pkg != nil {
			return fn.Origin().Pkg
		}
		fn = fn.Parent()
	}
	return nil
}

func (e *Env) lookupCell(name string) *ssa.Alloc {
	if e.fr == nil || e.fr.fn != e.fn {
		return nil
	}
	var found *ssa.Alloc
	var cands []*ssa.Alloc
	for _, b := range e.fn.Blocks {
		for _, in := range b.Instrs {
			if al, ok := in.(*ssa.Alloc); ok && al.Comment == name {
				if found == nil {
					found = al
				}
				cands = append(cands, al)
			}
		}
	}
	if len(cands) > 1 && e.loopHead != nil {
		// several variables of that name: prefer the one written in the loop head (range index),
		// else one written anywhere inside the loop
		for _, al := range cands {
			for _, in := range e.loopHead.Instrs {
				if st, ok := in.(*ssa.Store); ok && st.Addr == al {
					return al
				}
			}
		}
		loop := naturalLoop(e.loopHead, e.fr.backEdge)
		for _, al := range cands {
			for b := range loop {
				for _, in := range b.Instrs {
					if st, ok := in.(*ssa.Store); ok && st.Addr == al {
						return al
					}
				}
			}
		}
	}
	return found
}

func (e *Env) ident(id *ast.Ident) *Val {
	c := e.c
	name := id.Name
	switch name {
	case "true":
		return boolVal("true")
	case "false":
		return boolVal("false")
	case "nil":
		return &Val{T: types.Typ[types.UntypedNil], Term: "nil"}
	case "fd":
		return intVal(e.fd)
	}
	if v, ok := e.vars[name]; ok {
		return v
	}
	if e.cells {
		if al := e.lookupCell(name); al != nil {
			av := c.val(e.fr, e.st, al)
			p := c.ptrOf(av)
			return c.Load(e.st, p)
		}
	}
	if v, ok := e.vars["old:"+name]; ok {
		return v
	}
	if e.fr != nil && e.fr.fn == e.fn {
		for _, fv := range e.fn.FreeVars {
			if fv.Name() == name {
				if v, ok := e.fr.vals[fv]; ok {
					// free variables are captured by reference: the closure sees the cell
					if _, isPtr := fv.Type().Underlying().(*types.Pointer); isPtr {
						return c.Load(e.st, c.ptrOf(v))
					}
					return v
				}
			}
		}
	}
	if pkg := e.pkg(); pkg != nil {
		if m := pkg.Members[name]; m != nil {
			switch x := m.(type) {
			case *ssa.Global:
				p := c.ptrOf(c.val(nil2(e.fr), e.st, x))
				return c.Load(e.st, p)
			case *ssa.NamedConst:
				return c.constVal(x.Value)
			case *ssa.Function:
				return &Val{T: x.Type(), Term: "fn:" + name}
			}
		}
		// imported package constants via qualified names are handled in selector
	}
	// ghost state and spec helpers live in the root package
	if rp := c.prog.Pkgs[rootPkg]; rp != nil && rp != e.pkg() {
		switch x := rp.Members[name].(type) {
		case *ssa.Global:
			p := c.ptrOf(c.val(nil2(e.fr), e.st, x))
			return c.Load(e.st, p)
		case *ssa.NamedConst:
			return c.constVal(x.Value)
		}
	}
	// a variable that was renamed since the contract was written (see locals.go)
	if !e.noRename {
		if nn := c.prog.renamedTo(e.fn, name); nn != "" {
			c.prog.noteRename(e.fn, name, nn)
			ne := *e
			ne.noRename = true
			return ne.ident(&ast.Ident{Name: nn})
		}
	}
	fail("unknown identifier %q", name)
	return nil
}

func nil2(fr *Frame) *Frame {
	if fr != nil {
		return fr
	}
	return &Frame{vals: map[ssa.Value]*Val{}}
}

func (e *Env) eval(x ast.Expr) *Val {
	c := e.c
	switch n := x.(type) {
	case *ast.ParenExpr:
		return e.eval(n.X)
	case *ast.Ident:
		return e.ident(n)
	case *ast.BasicLit:
		switch n.Kind {
		case token.INT:
			b, ok := new(bigInt).SetString(n.Value, 0)
			if !ok {
				fail("bad int literal %s", n.Value)
			}
			return &Val{T: types.Typ[types.UntypedInt], Term: bigNum(b)}
		case token.STRING:
			s, err := strconv.Unquote(n.Value)
			if err != nil {
				fail("bad string literal")
			}
			return &Val{T: types.Typ[types.String], Term: c.strConst(s)}
		case token.CHAR:
			s, _, _, err := strconv.UnquoteChar(n.Value[1:len(n.Value)-1], '\'')
			if err != nil {
				fail("bad char literal")
			}
			return &Val{T: types.Typ[types.UntypedRune], Term: num(int64(s))}
		}
		fail("literal kind %v", n.Kind)
	case *ast.UnaryExpr:
		v := e.eval(n.X)
		switch n.Op {
		case token.NOT:
			return boolVal(not(v.Term))
		case token.SUB:
			return &Val{T: v.T, Term: app("-", v.Term)}
		case token.ADD:
			return v
		}
		fail("unary %s", n.Op)
	case *ast.StarExpr:
		v := e.eval(n.X)
		return c.Load(e.st, c.ptrOf(v))
	case *ast.BinaryExpr:
		return e.binary(n)
	case *ast.SelectorExpr:
		return e.selector(n)
	case *ast.IndexExpr:
		return e.index(n)
	case *ast.SliceExpr:
		return e.slice(n)
	case *ast.CallExpr:
		return e.call(n)
	}
	fail("unsupported expression %T", x)
	return nil
}

func isUntyped(t types.Type) bool {
	b, ok := t.(*types.Basic)
	return ok && b.Info()&types.IsUntyped != 0
}

func (e *Env) unify(a, b *Val) (*Val, *Val) {
	if isUntyped(a.T) && !isUntyped(b.T) {
		a = e.retype(a, b.T)
	} else if isUntyped(b.T) && !isUntyped(a.T) {
		b = e.retype(b, a.T)
	}
	return a, b
}

func (e *Env) retype(v *Val, t types.Type) *Val {
	if v.Term == "nil" {
		return e.c.zeroVal(t)
	}
	return &Val{T: t, Term: v.Term}
}

func (e *Env) binary(n *ast.BinaryExpr) *Val {
	c := e.c
	switch n.Op {
	case token.LAND:
		a, b := e.eval(n.X), e.eval(n.Y)
		return boolVal(and(a.Term, b.Term))
	case token.LOR:
		a, b := e.eval(n.X), e.eval(n.Y)
		return boolVal(or(a.Term, b.Term))
	}
	a, b := e.eval(n.X), e.eval(n.Y)
	a, b = e.unify(a, b)
	if a.Term == "nil" && b.Term == "nil" {
		fail("nil == nil")
	}
	rt := a.T
	switch n.Op {
	case token.EQL, token.NEQ, token.LSS, token.LEQ, token.GTR, token.GEQ:
		rt = types.Typ[types.Bool]
	}
	// contract arithmetic on Int is mathematical (no wrapping) for untyped and for
	// + - * ; this makes specs such as len(buf)-n meaningful as integers.
	if sortOf(a.T) == "Int" {
		switch n.Op {
		case token.ADD:
			return &Val{T: a.T, Term: app("+", a.Term, b.Term)}
		case token.SUB:
			return &Val{T: a.T, Term: app("-", a.Term, b.Term)}
		case token.MUL:
			if isNumeral(a.Term) || isNumeral(b.Term) {
				return &Val{T: a.T, Term: app("*", a.Term, b.Term)}
			}
			return &Val{T: a.T, Term: app("nlmul", a.Term, b.Term)}
		case token.QUO:
			if isNumeral(b.Term) {
				return &Val{T: a.T, Term: app("tdiv", a.Term, b.Term)}
			}
		case token.REM:
			if isNumeral(b.Term) {
				return &Val{T: a.T, Term: app("tmod", a.Term, b.Term)}
			}
		}
	}
	save := c.curFrame
	c.pure++
	r := c.binop(e.fr, e.st, nil, n.Op, a, b, rt)
	c.pure--
	c.curFrame = save
	return r
}

func (e *Env) selector(n *ast.SelectorExpr) *Val {
	c := e.c
	if id, ok := n.X.(*ast.Ident); ok && id.Name == "callee" {
		if v, ok := e.vars["callee."+n.Sel.Name]; ok {
			return v
		}
		fail("callee has no parameter %q", n.Sel.Name)
	}
	if id, ok := n.X.(*ast.Ident); ok && id.Name == "local" {
		if _, bound := e.vars["local"]; !bound {
			return c.Load(e.st, e.localGhost(n.Sel.Name))
		}
	}
	// qualified identifier pkg.Name ?
	if id, ok := n.X.(*ast.Ident); ok {
		if _, bound := e.vars[id.Name]; !bound && e.lookupCell(id.Name) == nil {
			if _, isOld := e.vars["old:"+id.Name]; !isOld {
				if pkg := e.pkg(); pkg != nil && pkg.Members[id.Name] == nil {
					// imported package
					for _, imp := range pkg.Pkg.Imports() {
						if imp.Name() == id.Name || importAlias(pkg, id.Name) == imp.Path() {
							sp := c.prog.Prog.Package(imp)
							if sp == nil {
								break
							}
							switch m := sp.Members[n.Sel.Name].(type) {
							case *ssa.NamedConst:
								return c.constVal(m.Value)
							case *ssa.Global:
								return c.Load(e.st, c.ptrOf(c.val(nil2(e.fr), e.st, m)))
							}
							fail("unsupported member %s.%s", id.Name, n.Sel.Name)
						}
					}
				}
			}
		}
	}
	// field of a package-level struct variable (e.g. ghost.x): load just that leaf
	if id, ok := n.X.(*ast.Ident); ok {
		if _, bound := e.vars[id.Name]; !bound && e.lookupCellQuick(id.Name) == nil {
			if g := e.globalByName(id.Name); g != nil {
				if _, isStruct := g.Type().(*types.Pointer).Elem().Underlying().(*types.Struct); isStruct {
					if p := e.lvalueOrNil(n); p != nil {
						return c.Load(e.st, p)
					}
				}
			}
		}
	}
	base := e.eval(n.X)
	return e.field(base, n.Sel.Name)
}

func (e *Env) lookupCellQuick(name string) *ssa.Alloc {
	if !e.cells {
		return nil
	}
	return e.lookupCell(name)
}

func importAlias(pkg *ssa.Package, name string) string {
	// common aliases used in logg
	switch name {
	case "logslog":
		return "log/slog"
	}
	return ""
}

func (e *Env) field(base *Val, name string) *Val {
	c := e.c
	t := base.T
	obj, path, _ := types.LookupFieldOrMethod(t, true, nil, name)
	if obj == nil {
		// unexported field of another package: search by name
		obj, path = findField(t, name)
	}
	fv, ok := obj.(*types.Var)
	if !ok || fv == nil {
		fail("no field %q in %s", name, shortTypeName(t))
	}
	cur := base
	for _, i := range path {
		// auto-deref pointers
		if pt, ok := cur.T.Underlying().(*types.Pointer); ok {
			p := c.ptrOf(cur)
			_ = pt
			np := *p
			np.Path = append(append([]int{}, p.Path...), i)
			stt, ok := p.Elem.Underlying().(*types.Struct)
			if !ok {
				fail("field of non-struct pointer")
			}
			np.Elem = stt.Field(i).Type()
			cur = c.loadNoWf(e.st, &np)
			if c.quant == 0 {
				c.wfRefs(e.st, cur)
			}
			continue
		}
		if cur.Fs == nil || i >= len(cur.Fs) {
			fail("field access on non-struct value %s", shortTypeName(cur.T))
		}
		cur = cur.Fs[i]
	}
	return cur
}

func findField(t types.Type, name string) (types.Object, []int) {
	if pt, ok := t.Underlying().(*types.Pointer); ok {
		t = pt.Elem()
	}
	st, ok := t.Underlying().(*types.Struct)
	if !ok {
		return nil, nil
	}
	for i := 0; i < st.NumFields(); i++ {
		if st.Field(i).Name() == name {
			return st.Field(i), []int{i}
		}
	}
	for i := 0; i < st.NumFields(); i++ {
		if st.Field(i).Embedded() {
			if o, p := findField(st.Field(i).Type(), name); o != nil {
				return o, append([]int{i}, p...)
			}
		}
	}
	return nil, nil
}

// loadNoWf loads without emitting typing assumptions when inside a quantifier.
func (c *Ctx) loadNoWf(st *State, p *Ptr) *Val {
	return c.Load(st, p)
}

func (e *Env) index(n *ast.IndexExpr) *Val {
	c := e.c
	base := e.eval(n.X)
	idx := e.eval(n.Index)
	switch bt := base.T.Underlying().(type) {
	case *types.Slice:
		et := bt.Elem()
		off := app("loff", base.Term)
		if c.quantVar != "" && c.quantOff == "" && strings.Contains(idx.Term, c.quantVar) {
			c.quantOff = off
		}
		p := &Ptr{Comp: "E:" + typeName(et), Dim: 2, Ref: app("lref", base.Term), Idx: addOff(off, idx.Term), T0: et, Elem: et}
		return c.Load(e.st, p)
	case *types.Basic:
		if sortOf(base.T) == "Str" {
			off := app("soff", base.Term)
			if c.quantVar != "" && c.quantOff == "" && strings.Contains(idx.Term, c.quantVar) {
				c.quantOff = off
			}
			if t := addOff(off, idx.Term); !strings.HasPrefix(t, "(+ "+off) {
				b := app("strbyte", app("sref", base.Term), t)
				return &Val{T: types.Typ[types.Uint8], Term: b}
			}
			return c.strAt(base.Term, idx.Term)
		}
	case *types.Array:
		return c.wf(&Val{T: bt.Elem(), Term: app("select", base.Term, idx.Term)})
	case *types.Pointer:
		if at, ok := bt.Elem().Underlying().(*types.Array); ok {
			p := c.ptrOf(base)
			np := *p
			if p.Reg == nil && p.Dim == 2 && p.Idx == "" && len(p.Path) == 0 {
				np.Idx = idx.Term
			} else {
				np.Sub = idx.Term
			}
			np.Elem = at.Elem()
			return c.Load(e.st, &np)
		}
	case *types.Map:
		idx = e.retypeIfUntyped(idx, bt.Key())
		key := keyTerm(c, idx)
		has := and(not(eq(base.Term, "0")), c.mapHas(e.st, bt, base.Term, key))
		if sortOf(bt.Elem()) == "" {
			fail("map with composite value")
		}
		return c.wf(&Val{T: bt.Elem(), Term: ite(has, c.mapVal(e.st, bt, base.Term, key), zeroTerm(bt.Elem()))})
	}
	fail("index on %s", shortTypeName(base.T))
	return nil
}

func (e *Env) retypeIfUntyped(v *Val, t types.Type) *Val {
	if isUntyped(v.T) {
		return e.retype(v, t)
	}
	return v
}

func (e *Env) slice(n *ast.SliceExpr) *Val {
	base := e.eval(n.X)
	get := func(x ast.Expr, def string) string {
		if x == nil {
			return def
		}
		return e.eval(x).Term
	}
	switch sortOf(base.T) {
	case "Slice":
		s := base.Term
		lo := get(n.Low, "0")
		hi := get(n.High, app("llen", s))
		return &Val{T: base.T, Term: app("mkSlice", app("lref", s), app("+", app("loff", s), lo), app("-", hi, lo), app("-", app("lcap", s), lo))}
	case "Str":
		s := base.Term
		lo := get(n.Low, "0")
		hi := get(n.High, app("slen", s))
		return &Val{T: base.T, Term: app("mkStr", app("sref", s), app("+", app("soff", s), lo), app("-", hi, lo))}
	}
	fail("slice expression on %s", shortTypeName(base.T))
	return nil
}

func (e *Env) call(n *ast.CallExpr) *Val {
	c := e.c
	fname := ""
	switch f := n.Fun.(type) {
	case *ast.Ident:
		fname = f.Name
	case *ast.SelectorExpr:
		// method-style spec call or type conversion pkg.T(x): not supported generally
		if id, ok := f.X.(*ast.Ident); ok {
			fname = id.Name + "." + f.Sel.Name
		}
	}
	arg := func(i int) *Val {
		if i >= len(n.Args) {
			fail("%s: missing argument %d", fname, i)
		}
		return e.eval(n.Args[i])
	}
	switch fname {
	case "old":
		ne := *e
		ne.st = e.old
		ne.cells = false
		return ne.eval(n.Args[0])
	case "len":
		v := arg(0)
		switch sortOf(v.T) {
		case "Slice":
			return intVal(app("llen", v.Term))
		case "Str":
			return intVal(app("slen", v.Term))
		}
		switch u := v.T.Underlying().(type) {
		case *types.Array:
			return intVal(num(u.Len()))
		case *types.Pointer:
			if at, ok := u.Elem().Underlying().(*types.Array); ok {
				return intVal(num(at.Len()))
			}
		case *types.Map:
			return intVal(c.mapLen(e.st, u, v.Term))
		}
		fail("len of %s", shortTypeName(v.T))
	case "cap":
		v := arg(0)
		if sortOf(v.T) == "Slice" {
			return intVal(app("lcap", v.Term))
		}
		fail("cap of %s", shortTypeName(v.T))
	case "implies":
		return boolVal(implies(arg(0).Term, arg(1).Term))
	case "iff":
		return boolVal(eq(arg(0).Term, arg(1).Term))
	case "ite", "cond":
		a, b := e.unify(arg(1), arg(2))
		return &Val{T: a.T, Term: ite(arg(0).Term, a.Term, b.Term)}
	case "forall", "exists":
		id, ok := n.Args[0].(*ast.Ident)
		if ok && len(n.Args) == 2 {
			// unbounded form: forall(k, body)
			c.nsym++
			qv := fmt.Sprintf("q_%s_%d", id.Name, c.nsym)
			c.quant++
			body := e.with(id.Name, intVal(qv)).eval(n.Args[1])
			c.quant--
			if fname == "forall" {
				return boolVal(fmt.Sprintf("(forall ((%s Int)) %s)", qv, body.Term))
			}
			return boolVal(fmt.Sprintf("(exists ((%s Int)) %s)", qv, body.Term))
		}
		if ok && len(n.Args) == 3 {
			// typed unbounded form: forall(x, T, body) with T a pointer or map type: x ranges over the
			// objects of that type that exist in the current state (non-nil references below the allocation frontier)
			t := e.typeExpr(n.Args[1])
			rtyped(t) // registers the map components the quantifier talks about
			c.nsym++
			qv := fmt.Sprintf("q_%s_%d", id.Name, c.nsym)
			c.quant++
			body := e.with(id.Name, &Val{T: t, Term: qv}).eval(n.Args[2])
			c.quant--
			rng := and(app("<", "0", qv), app("<", qv, c.next(e.st)), eq(app("rtype", qv), num(int64(c.prog.typeTag(t)))))
			if fname == "forall" {
				return boolVal(fmt.Sprintf("(forall ((%s Int)) %s)", qv, implies(rng, body.Term)))
			}
			return boolVal(fmt.Sprintf("(exists ((%s Int)) %s)", qv, and(rng, body.Term)))
		}
		if !ok || len(n.Args) != 4 {
			fail("%s(i, lo, hi, body)", fname)
		}
		lo, hi := arg(1), arg(2)
		if lo.Term == hi.Term {
			// empty range
			if fname == "forall" {
				return boolVal("true")
			}
			return boolVal("false")
		}
		c.nsym++
		qv := fmt.Sprintf("q_%s_%d", id.Name, c.nsym)
		c.quant++
		// pass 1: find the offset of the first slice indexed by the bound variable, so that
		// the quantifier can range over absolute array indices (E-matching friendly)
		c.quantVar, c.quantOff = qv, ""
		ne := e.with(id.Name, intVal(qv))
		body := ne.eval(n.Args[3])
		off := c.quantOff
		c.quantVar, c.quantOff = "", ""
		iv := qv
		if off != "" {
			iv = app("-", qv, off)
			ne = e.with(id.Name, intVal(iv))
			body = ne.eval(n.Args[3])
		}
		c.quant--
		rng := and(app("<=", lo.Term, iv), app("<", iv, hi.Term))
		if fname == "forall" {
			return boolVal(fmt.Sprintf("(forall ((%s Int)) %s)", qv, implies(rng, body.Term)))
		}
		return boolVal(fmt.Sprintf("(exists ((%s Int)) %s)", qv, and(rng, body.Term)))
	case "has":
		m, k := arg(0), arg(1)
		mt, ok := m.T.Underlying().(*types.Map)
		if !ok {
			fail("has on non-map")
		}
		k = e.retypeIfUntyped(k, mt.Key())
		return boolVal(and(not(eq(m.Term, "0")), c.mapHas(e.st, mt, m.Term, keyTerm(c, k))))
	case "typeis":
		v := arg(0)
		t := e.typeExpr(n.Args[1])
		return boolVal(c.typeIs(v, t))
	case "dyn":
		// dyn(v, T): payload of interface value v viewed as T
		v := arg(0)
		t := e.typeExpr(n.Args[1])
		res := c.unbox(nil, app("ival", v.Term), t)
		if e.st != nil && c.quant == 0 && res.Term != "" {
			switch t.Underlying().(type) {
			case *types.Pointer, *types.Map:
				// a reference held in an interface value points below the allocation frontier of the state it is read in
				c.assumeAlways(implies(c.typeIs(v, t), app("<", res.Term, c.next(e.st))))
			}
		}
		return res
	case "asiface":
		// asiface(x, I): the interface value of type I holding x (x of a concrete type)
		v := arg(0)
		it := e.typeExpr(n.Args[1])
		return c.makeIface(e.st, v, v.T, it)
	case "ident":
		// ident(x): an integer identifying the value x (equal values have equal identities)
		v := arg(0)
		srt := sortOf(v.T)
		if srt == "Int" {
			return intVal(v.Term)
		}
		if srt == "" {
			fail("ident of composite")
		}
		fn := sym("ident." + srt)
		c.declareFun(fn, []string{srt}, "Int")
		return intVal(app(fn, v.Term))
	case "uf":
		// uf("name", x...): uninterpreted integer function (for facts about dependencies that are assumed)
		lit, ok := n.Args[0].(*ast.BasicLit)
		if !ok {
			fail("uf(\"name\", args...)")
		}
		name, _ := strconv.Unquote(lit.Value)
		var ts, sorts []string
		for i := 1; i < len(n.Args); i++ {
			a := arg(i)
			ts = append(ts, a.Term)
			sorts = append(sorts, sortOf(a.T))
		}
		fn := sym("uf." + name)
		c.declareFun(fn, sorts, "Int")
		return intVal(app(fn, ts...))
	case "contentid":
		// contentid(x): identity of the byte content of a string or []byte (equal content <=> equal id)
		v := arg(0)
		switch sortOf(v.T) {
		case "Str":
			return intVal(app("strid", v.Term))
		case "Slice":
			et := v.T.Underlying().(*types.Slice).Elem()
			p := &Ptr{Comp: "E:" + typeName(et), Dim: 2, Ref: app("lref", v.Term), T0: et, Elem: et}
			cur, _ := c.loadLeaf(e.st, p, nil)
			c.declareFun("bytesid", []string{"(Array Int Int)", "Int", "Int"}, "Int")
			return intVal(app("bytesid", cur, app("loff", v.Term), app("llen", v.Term)))
		}
		fail("contentid of %s", shortTypeName(v.T))
	case "unchanged":
		// unchanged(x): x denotes the same value / same map contents / same slice elements as before the call
		ne := *e
		ne.st = e.old
		ne.cells = false
		nv, ov := arg(0), ne.eval(n.Args[0])
		switch u := nv.T.Underlying().(type) {
		case *types.Map:
			has, val, ks, vs := c.mapComps(u)
			hs := "(Array Int (Array " + ks + " Bool))"
			vsrt := "(Array Int (Array " + ks + " " + vs + "))"
			return boolVal(and(eq(nv.Term, ov.Term),
				eq(app("select", c.H(e.st, has, hs), nv.Term), app("select", c.H(e.old, has, hs), nv.Term)),
				eq(app("select", c.H(e.st, val, vsrt), nv.Term), app("select", c.H(e.old, val, vsrt), nv.Term)),
				eq(app("select", c.H(e.st, "M:"+typeName(u)+".len", "(Array Int Int)"), nv.Term), app("select", c.H(e.old, "M:"+typeName(u)+".len", "(Array Int Int)"), nv.Term))))
		case *types.Slice:
			et := u.Elem()
			parts := []string{eq(nv.Term, ov.Term)}
			c.nsym++
			qv := fmt.Sprintf("q_u_%d", c.nsym)
			c.elemLeaves(et, func(leaf, inner, sort string) {
				a := app("select", app("select", c.H(e.st, leaf, sort), app("lref", nv.Term)), qv)
				b := app("select", app("select", c.H(e.old, leaf, sort), app("lref", nv.Term)), qv)
				parts = append(parts, fmt.Sprintf("(forall ((%s Int)) (=> (and (<= (loff %s) %s) (< %s (+ (loff %s) (llen %s)))) (= %s %s)))", qv, nv.Term, qv, qv, nv.Term, nv.Term, a, b))
			})
			return boolVal(and(parts...))
		}
		return boolVal(c.equal(nv, ov))
	case "grown":
		// grown(new, old): new is old's array re-sliced in place, or a freshly allocated array
		nv, ov := arg(0), arg(1)
		return boolVal(or(and(eq(app("lref", nv.Term), app("lref", ov.Term)), eq(app("loff", nv.Term), app("loff", ov.Term)), eq(app("lcap", nv.Term), app("lcap", ov.Term))),
			app(">=", app("lref", nv.Term), c.next(e.old))))
	case "same":
		// same(a, b): a and b are the very same value (for strings: the same string header, not merely
		// equal content; what an assignment b = a establishes)
		nv, ov := arg(0), arg(1)
		if nv.Term == "" || ov.Term == "" {
			fail("same of composite")
		}
		return boolVal(eq(nv.Term, ov.Term))
	case "coupled":
		// coupled(a, b): the two sides of a lockstep product hold the same value: the same number, flag or
		// string header; for error values, both nil or both non-nil (only that is ever observed)
		nv, ov := arg(0), arg(1)
		if nv.Term == "" || ov.Term == "" {
			fail("coupled of composite")
		}
		if sortOf(nv.T) == "Iface" {
			return boolVal(eq(eq(app("itag", nv.Term), "0"), eq(app("itag", ov.Term), "0")))
		}
		return boolVal(eq(nv.Term, ov.Term))
	case "sameobject":
		nv, ov := arg(0), arg(1)
		return boolVal(eq(app("lref", nv.Term), app("lref", ov.Term)))
	case "samearray":
		nv, ov := arg(0), arg(1)
		return boolVal(and(eq(app("lref", nv.Term), app("lref", ov.Term)), eq(app("loff", nv.Term), app("loff", ov.Term))))
	case "isglobal":
		// isglobal(p, name): p is (statically) the address of package variable name
		v := arg(0)
		id, ok := n.Args[1].(*ast.Ident)
		if !ok {
			fail("isglobal(p, name)")
		}
		if v.P != nil && v.P.Dim == 0 && (strings.HasSuffix(v.P.Comp, "."+id.Name)) && len(v.P.Path) == 0 {
			return boolVal("true")
		}
		return boolVal("false")
	case "isnil":
		v := arg(0)
		switch sortOf(v.T) {
		case "Iface":
			return boolVal(eq(app("itag", v.Term), "0"))
		case "Slice":
			return boolVal(eq(app("lref", v.Term), "0"))
		case "Int":
			return boolVal(eq(v.Term, "0"))
		}
		fail("isnil of %s", shortTypeName(v.T))
	case "fresh":
		// fresh(p): reference allocated during the call
		v := arg(0)
		ref := v.Term
		if sortOf(v.T) == "Slice" {
			ref = app("lref", v.Term)
		}
		return boolVal(app(">=", ref, c.next(e.old)))
	case "int", "int64", "uint64", "uint", "int32", "uint32", "uint8", "byte", "uintptr", "rune":
		v := arg(0)
		var t types.Type
		for _, b := range types.Typ {
			if b.Name() == fname {
				t = b
			}
		}
		if fname == "byte" {
			t = types.Typ[types.Uint8]
		}
		if fname == "rune" {
			t = types.Typ[types.Int32]
		}
		if isUntyped(v.T) || sortOf(v.T) == "Int" {
			return &Val{T: t, Term: v.Term} // mathematical: no wrap in specs
		}
		fail("conversion to %s", fname)
	}
	// spec function in the package (pure Go, loop free): inline
	if pkg := e.pkg(); pkg != nil {
		name := fname
		tpkg := pkg
		if i := strings.IndexByte(fname, '.'); i > 0 {
			// Type conversion like Level(x) or pkg-qualified spec function
			name = fname[i+1:]
		}
		if m, ok := tpkg.Members[name].(*ssa.Function); ok && !strings.Contains(fname, ".") {
			var args []*Val
			sig := m.Signature
			for i := range n.Args {
				a := arg(i)
				if i < sig.Params().Len() {
					a = e.retypeIfUntyped(a, sig.Params().At(i).Type())
				}
				args = append(args, a)
			}
			return c.callPure(e, m, args)
		}
		if tn, ok := tpkg.Members[name].(*ssa.Type); ok && !strings.Contains(fname, ".") {
			v := arg(0)
			return &Val{T: tn.Type(), Term: v.Term, Fs: v.Fs}
		}
	}
	fail("unknown function %q in contract expression", fname)
	return nil
}

func (e *Env) typeExpr(x ast.Expr) types.Type {
	pkg := e.pkg()
	switch n := x.(type) {
	case *ast.Ident:
		if pkg != nil {
			if tn, ok := pkg.Members[n.Name].(*ssa.Type); ok {
				return tn.Type()
			}
		}
		if rp := e.c.prog.Pkgs[rootPkg]; rp != nil {
			if tn, ok := rp.Members[n.Name].(*ssa.Type); ok {
				return tn.Type()
			}
		}
		for _, b := range types.Typ {
			if b.Name() == n.Name {
				return b
			}
		}
		if n.Name == "error" {
			return types.Universe.Lookup("error").Type()
		}
	case *ast.StarExpr:
		return types.NewPointer(e.typeExpr(n.X))
	case *ast.ArrayType:
		if n.Len == nil {
			return types.NewSlice(e.typeExpr(n.Elt))
		}
	case *ast.MapType:
		return types.NewMap(e.typeExpr(n.Key), e.typeExpr(n.Value))
	case *ast.SelectorExpr:
		if id, ok := n.X.(*ast.Ident); ok && pkg != nil {
			for _, imp := range pkg.Pkg.Imports() {
				if imp.Name() == id.Name || importAlias(pkg, id.Name) == imp.Path() {
					if o := imp.Scope().Lookup(n.Sel.Name); o != nil {
						return o.Type()
					}
				}
			}
		}
	}
	fail("unknown type expression")
	return nil
}

// callPure inlines a loop-free spec function.
func (c *Ctx) callPure(e *Env, fn *ssa.Function, args []*Val) *Val {
	if len(fn.Blocks) == 0 {
		fail("spec function %s has no body", fn.Name())
	}
	// spec functions become one SMT define-fun over their scalar parameters and the heap
	// components they read (shared, compact, and syntactically equal across states with equal heaps)
	if sd := c.specDefine(e, fn); sd != nil {
		var ts []string
		for _, a := range args {
			ts = append(ts, a.Term)
		}
		for _, l := range sd.leaves {
			ts = append(ts, c.H(e.st, l[0], l[1]))
		}
		res := &Val{T: fn.Signature.Results().At(0).Type(), Term: app(sd.name, ts...)}
		if c.quant == 0 {
			// typing facts of the result (non-negative lengths, integer ranges)
			if sortOf(res.T) == "Slice" || sortOf(res.T) == "Str" {
				res = c.wf(&Val{T: res.T, Term: c.define("specres", sortOf(res.T), res.Term)})
			}
		}
		return res
	}
	return c.callPureInline(e, fn, args)
}

type specDef struct {
	name   string
	leaves [][2]string // heap components read: (leaf, sort)
}

func (c *Ctx) specDefine(e *Env, fn *ssa.Function) *specDef {
	if c.specFuns == nil {
		c.specFuns = map[*ssa.Function]*specDef{}
	}
	if n, ok := c.specFuns[fn]; ok {
		return n
	}
	c.specFuns[fn] = nil
	if fn.Signature.Results().Len() != 1 || sortOf(fn.Signature.Results().At(0).Type()) == "" {
		return nil
	}
	var params []string
	var args []*Val
	for _, p := range fn.Params {
		s := sortOf(p.Type())
		if s == "" {
			return nil
		}
		pn := "sp_" + sanitizeHint(p.Name())
		params = append(params, "("+pn+" "+s+")")
		args = append(args, &Val{T: p.Type(), Term: pn})
	}
	c.quant++
	savePh := c.phLeaves
	c.phLeaves = nil
	pst := &State{regs: map[regKey]*Val{}, heap: map[string]string{}, placeholder: true}
	ne := *e
	ne.st = pst
	ne.old = pst
	var body *Val
	func() {
		defer func() {
			if r := recover(); r != nil {
				if _, ok := r.(evalError); ok {
					body = nil
					return
				}
				panic(r)
			}
		}()
		body = c.callPureInline(&ne, fn, args)
	}()
	leaves := c.phLeaves
	c.phLeaves = savePh
	c.quant--
	if body == nil || body.Term == "" || strings.ContainsAny(body.Term, "!@") {
		if os.Getenv("LVC_DEBUG") != "" {
			t := ""
			if body != nil {
				t = body.Term
				if i := strings.IndexAny(t, "!@"); i >= 0 {
					lo := i - 60
					if lo < 0 {
						lo = 0
					}
					hi := i + 40
					if hi > len(t) {
						hi = len(t)
					}
					t = t[lo:hi]
				}
			}
			fmt.Fprintf(os.Stderr, "specDefine(%s) not closed: %s\n", fn.Name(), t)
		}
		return nil
	}
	for _, l := range leaves {
		params = append(params, "("+sym("$h."+l[0])+" "+l[1]+")")
	}
	name := sym("spec." + fn.Name())
	c.declared[name] = "fun"
	c.decls = append(c.decls, "(define-fun "+name+" ("+strings.Join(params, " ")+") "+sortOf(fn.Signature.Results().At(0).Type())+" "+body.Term+")")
	sd := &specDef{name: name, leaves: leaves}
	c.specFuns[fn] = sd
	return sd
}

func (c *Ctx) callPureInline(e *Env, fn *ssa.Function, args []*Val) *Val {
	c.pure++
	defer func() { c.pure-- }()
	parent := e.fr
	if parent == nil {
		parent = &Frame{fd: "0"}
	}
	fr := c.newFrame(fn, parent)
	fr.inlined = true
	for i, p := range fn.Params {
		if i < len(args) {
			fr.vals[p] = args[i]
			fr.params = append(fr.params, args[i])
		}
	}
	fr.old = e.st
	saveReach := c.curReach
	st := e.st.clone()
	exits := c.execBody(fr, st, "true")
	c.curReach = saveReach
	var vs []*Val
	var conds []string
	for _, ex := range exits {
		if ex.kind != "return" {
			continue
		}
		if len(ex.results) != 1 {
			fail("spec function %s must return one value", fn.Name())
		}
		vs = append(vs, ex.results[0])
		conds = append(conds, ex.reach)
	}
	if len(vs) == 0 {
		fail("spec function %s does not return", fn.Name())
	}
	if len(vs) == 1 {
		return vs[0]
	}
	// build nested ite (no fresh symbols: usable under quantifiers)
	res := vs[len(vs)-1]
	for i := len(vs) - 2; i >= 0; i-- {
		if res.Term == "" || vs[i].Term == "" {
			fail("spec function with composite result")
		}
		res = &Val{T: res.T, Term: ite(conds[i], vs[i].Term, res.Term)}
	}
	return res
}

// addOff builds off+idx, cancelling an idx of the form (- k off).
func addOff(off, idx string) string {
	if strings.HasPrefix(idx, "(- ") && strings.HasSuffix(idx, " "+off+")") {
		k := idx[3 : len(idx)-len(off)-2]
		if balancedTail(k) {
			return k
		}
	}
	// (+ (- k off) c)  ->  (+ k c)
	if strings.HasPrefix(idx, "(+ (- ") {
		inner := idx[3:]
		// find the end of the first argument
		d := 0
		for i := 0; i < len(inner); i++ {
			if inner[i] == '(' {
				d++
			} else if inner[i] == ')' {
				d--
				if d == 0 {
					first := inner[:i+1]
					rest := strings.TrimSuffix(strings.TrimSpace(inner[i+1:]), ")")
					if k := addOff(off, first); !strings.HasPrefix(k, "(+ "+off) {
						return app("+", k, strings.TrimSpace(rest))
					}
					break
				}
			}
		}
	}
	return app("+", off, idx)
}

var _ = constant.MakeBool
