package vc

import (
	"fmt"
	"go/types"
	"sort"
	"strings"

	"golang.org/x/tools/go/ssa"
)

// Val is a symbolic Go value.
//   - scalar sorts (Int, Bool, Str, Slice, Iface, F64, arrays of scalars): Term
//   - structs / tuples: Fs
//   - pointers: Term (reference of a whole heap object) and/or P (Go-side lvalue)
type Val struct {
	T    types.Type
	Term string
	Fs   []*Val
	P    *Ptr
}

// Ptr is a Go-side description of an addressable location.
type Ptr struct {
	Reg          *regKey // register cell (non-escaping local)
	Comp         string  // heap component base name
	Dim          int     // 0 global, 1 ref, 2 ref+idx
	Ref          string
	Idx          string
	T0           types.Type // type stored at Comp root
	Path         []int      // struct field path below T0
	Sub          string     // index into an array-sorted scalar leaf
	Elem         types.Type // type of the location
	WinLo, WinHi string     // dim 2: index window [WinLo,WinHi) the pointer was derived from
}

type regKey struct {
	frame int
	al    *ssa.Alloc
	extra string
}

type State struct {
	regs   map[regKey]*Val
	heap   map[string]string // component (incl. globals, ghost, $next) -> term
	epoch  int               // components absent from heap have version "<leaf>@e<epoch>" ("@0" for epoch 0)
	pepoch int               // same for protected components (ghost state, logger configuration, registry tables)

	placeholder bool // spec-function definition: every component is a bound parameter "$h.<leaf>"
}

func epochName(leaf string, epoch int) string {
	if epoch == 0 {
		return sym(leaf + "@0")
	}
	return sym(fmt.Sprintf("%s@e%d", leaf, epoch))
}

// protectedLeaf: components that "auto" (noghost) contracts promise not to write: ghost state,
// logger and writer-set configuration, the level registry and the global switches.
func protectedLeaf(leaf string) bool {
	const r = rootPkg
	// scratch ghost variables that merely record the latest external call are not protected
	if scratchGhost(leaf) {
		return false
	}
	for _, p := range []string{"G:" + r + ".ghost.", "F:" + r + ".Entry.", "F:" + r + ".dualWriter.", "F:" + r + ".logwr.", "F:" + r + ".filewr.", "F:" + r + ".handler4LogSlog.", "F:" + r + ".handlerWriter.",
		"E:" + r + ".LogWriter", "E:uint16", "M:map[" + r + ".Level]", "M:map[string]" + r + ".Level", "M:map[int]map[" + r + ".Level]", "M:map[string]*" + r + ".Entry.", "M:map[log/slog.Level]" + r + ".Level."} {
		if strings.HasPrefix(leaf, p) {
			return true
		}
	}
	if strings.HasPrefix(leaf, "G:"+r+".") {
		// package-level variables are configuration / tables, except the few that the logging path itself updates
		switch leaf[len("G:"+r+"."):] {
		case "fixedSize":
			return false
		}
		return !strings.HasPrefix(leaf, "G:"+r+".pool")
	}
	return false
}

// scratchGhost: ghost variables that merely record the latest call of some external function (what it was
// given, what it answered). Any function may overwrite them; no frame condition mentions them.
func scratchGhost(leaf string) bool {
	const r = rootPkg
	return strings.HasPrefix(leaf, "G:"+r+".ghost.io") || strings.HasPrefix(leaf, "G:"+r+".ghost.utc") || strings.HasPrefix(leaf, "G:"+r+".ghost.cf")
}

func (s *State) epochOf(leaf string) int {
	if protectedLeaf(leaf) {
		return s.pepoch
	}
	return s.epoch
}

func (s *State) clone() *State {
	n := &State{regs: make(map[regKey]*Val, len(s.regs)), heap: make(map[string]string, len(s.heap)), epoch: s.epoch, pepoch: s.pepoch, placeholder: s.placeholder}
	for k, v := range s.regs {
		n.regs[k] = v
	}
	for k, v := range s.heap {
		n.heap[k] = v
	}
	return n
}

// ---------- sorts ----------

func isStructLike(t types.Type) bool {
	switch t.Underlying().(type) {
	case *types.Struct, *types.Tuple:
		return true
	}
	return false
}

// sortOf returns the SMT sort of a scalar-represented Go type ("" for composites).
func sortOf(t types.Type) string {
	switch u := t.Underlying().(type) {
	case *types.Basic:
		switch {
		case u.Info()&types.IsBoolean != 0:
			return "Bool"
		case u.Info()&types.IsInteger != 0:
			return "Int"
		case u.Info()&types.IsFloat != 0:
			return "F64"
		case u.Info()&types.IsComplex != 0:
			return "C128"
		case u.Info()&types.IsString != 0:
			return "Str"
		case u.Kind() == types.UnsafePointer:
			return "Int"
		case u.Kind() == types.UntypedNil:
			return "Int"
		}
		return "Int"
	case *types.Pointer, *types.Map, *types.Chan, *types.Signature:
		return "Int"
	case *types.Slice:
		return "Slice"
	case *types.Interface:
		return "Iface"
	case *types.Array:
		es := sortOf(u.Elem())
		if es == "" {
			return "Opaque" // arrays of structs are carried as atomic values (no element access)
		}
		return "(Array Int " + es + ")"
	case *types.TypeParam:
		return "Iface"
	}
	return ""
}

func intInfo(t types.Type) (bits int, signed bool, ok bool) {
	b, isb := t.Underlying().(*types.Basic)
	if !isb || b.Info()&types.IsInteger == 0 {
		return 0, false, false
	}
	switch b.Kind() {
	case types.Int8:
		return 8, true, true
	case types.Int16:
		return 16, true, true
	case types.Int32:
		return 32, true, true
	case types.Int64, types.Int, types.UntypedInt, types.UntypedRune:
		return 64, true, true
	case types.Uint8:
		return 8, false, true
	case types.Uint16:
		return 16, false, true
	case types.Uint32:
		return 32, false, true
	case types.Uint64, types.Uint, types.Uintptr:
		return 64, false, true
	}
	return 64, true, true
}

func pow2(n int) string {
	s := "1"
	// exact big power
	b := []byte{1}
	_ = b
	v := newBig(1)
	v.Lsh(v, uint(n))
	s = v.String()
	return s
}

func intRange(t types.Type) (lo, hi string, ok bool) {
	bits, signed, ok := intInfo(t)
	if !ok {
		return "", "", false
	}
	if signed {
		h := newBig(1)
		h.Lsh(h, uint(bits-1))
		l := newBig(0).Neg(h)
		h.Sub(h, newBig(1))
		return bigNum(l), bigNum(h), true
	}
	h := newBig(1)
	h.Lsh(h, uint(bits))
	h.Sub(h, newBig(1))
	return "0", bigNum(h), true
}

func wrapFn(t types.Type) string {
	bits, signed, ok := intInfo(t)
	if !ok {
		return ""
	}
	if signed {
		return fmt.Sprintf("wrapS%d", bits)
	}
	return fmt.Sprintf("wrapU%d", bits)
}

// ---------- type names for heap components ----------

func typeName(t types.Type) string {
	t = types.Unalias(t)
	if b, ok := t.(*types.Basic); ok {
		switch b.Kind() {
		case types.Uint8:
			return "uint8"
		case types.Int32:
			return "int32"
		}
	}
	s := types.TypeString(t, func(p *types.Package) string { return p.Path() })
	if strings.Contains(s, "byte") || strings.Contains(s, "rune") {
		s = wordReplace(s, "byte", "uint8")
		s = wordReplace(s, "rune", "int32")
	}
	return s
}

func wordReplace(s, w, r string) string {
	var sb strings.Builder
	for i := 0; i < len(s); {
		if strings.HasPrefix(s[i:], w) && (i == 0 || !isIdentChar(s[i-1])) && (i+len(w) == len(s) || !isIdentChar(s[i+len(w)])) {
			sb.WriteString(r)
			i += len(w)
			continue
		}
		sb.WriteByte(s[i])
		i++
	}
	return sb.String()
}

func isIdentChar(c byte) bool {
	return c >= 'a' && c <= 'z' || c >= 'A' && c <= 'Z' || c >= '0' && c <= '9' || c == '_' || c == '.' || c == '/'
}

func shortTypeName(t types.Type) string {
	return types.TypeString(t, func(p *types.Package) string { return p.Name() })
}

// leafName returns the full component name for a field path below a root.
func leafName(comp string, t0 types.Type, path []int) (string, types.Type) {
	t := t0
	name := comp
	for _, i := range path {
		st := t.Underlying().(*types.Struct)
		f := st.Field(i)
		name += "." + f.Name()
		t = f.Type()
	}
	return name, t
}

// ---------- Ctx: one verification context (one top-level function) ----------

type Ctx struct {
	prog *Program
	fn   *ssa.Function
	con  *Contract

	decls    []string
	declared map[string]string // symbol -> sort / signature
	asserts  []string
	nsym     int
	nframe   int

	obls []*Obligation
	dry  int
	wr   *writeSet

	unsup       []string
	assumed     map[string]bool // assumed external contracts / defaults used
	inlined     map[string]bool
	uses        map[string]bool // keys of in-repo callees whose (checked) contract was applied
	strConsts   map[string]string
	pure        int // >0 while evaluating spec functions: obligations suppressed
	curReach    string
	curFrame    *Frame
	oblSeq      map[string]int
	initState   *State
	exits       []*exitInfo
	ghostWrites map[string]bool

	topFrame      *Frame
	seenTypes     map[string]bool
	seenIfaces    map[string]bool
	seenTypeList  []types.Type
	seenIfaceList []types.Type
	phiConds      map[phiKey]string
	closures      map[string]*closureInfo
	quant         int
	watermark     int
	specFuns      map[*ssa.Function]*specDef
	phLeaves      [][2]string
	invEntry      []string
	assertTags    []int // top-level basic block during which each assertion was made (-1: before the body)
	curTopBlock   int
	curEdgeFrom   int
	curGroup      string
	captured      []capturedCell
	ptrLeaves     map[string]bool
	epochNext     map[int]string
	inInv         bool
	compSorts     map[string]string
	nepoch        int
	atCallSeen    map[*AtClause]bool
	curLoopHead   *ssa.BasicBlock
	allocRefs     map[string]bool
	quantVar      string
	quantOff      string
}

type writeSet struct {
	regs                  map[regKey]bool
	comps                 map[string]map[string]bool // leaf comp -> set of ref terms ("" = whole)
	wins                  map[string][][2]string     // leaf comp + "\x00" + ref -> windows (nil entry = whole array)
	whole                 map[string]bool
	everything            bool
	everythingUnprotected bool
	keptSet               bool
	kept                  map[string]string
}

func newWriteSet() *writeSet {
	return &writeSet{regs: map[regKey]bool{}, comps: map[string]map[string]bool{}, wins: map[string][][2]string{}, whole: map[string]bool{}}
}

// noteKeeps intersects the kept components of the "assigns everything" calls seen in the loop body.
func (w *writeSet) noteKeeps(kept [][2]string) {
	m := map[string]string{}
	for _, k := range kept {
		m[k[0]] = k[1]
	}
	if !w.keptSet {
		w.keptSet = true
		w.kept = m
		return
	}
	for k := range w.kept {
		if _, ok := m[k]; !ok {
			delete(w.kept, k)
		}
	}
}

func (w *writeSet) addWin(leaf, ref, lo, hi string) {
	w.addCompOnly(leaf, ref)
	k := leaf + "\x00" + ref
	w.wins[k] = append(w.wins[k], [2]string{lo, hi})
}

func (w *writeSet) addComp(leaf, ref string) {
	w.addCompOnly(leaf, ref)
	w.whole[leaf+"\x00"+ref] = true
}

func (w *writeSet) addCompOnly(leaf, ref string) {
	m := w.comps[leaf]
	if m == nil {
		m = map[string]bool{}
		w.comps[leaf] = m
	}
	m[ref] = true
}

func (c *Ctx) unsupported(format string, a ...any) {
	msg := fmt.Sprintf(format, a...)
	for _, u := range c.unsup {
		if u == msg {
			return
		}
	}
	c.unsup = append(c.unsup, msg)
}

func (c *Ctx) declare(name, sort string) {
	if _, ok := c.declared[name]; ok {
		return
	}
	c.declared[name] = sort
	c.decls = append(c.decls, "(declare-const "+name+" "+sort+")")
}

func (c *Ctx) declareFun(name string, args []string, ret string) {
	if _, ok := c.declared[name]; ok {
		return
	}
	c.declared[name] = "fun"
	c.decls = append(c.decls, "(declare-fun "+name+" ("+strings.Join(args, " ")+") "+ret+")")
}

func (c *Ctx) fresh(hint, sort string) string {
	c.nsym++
	hint = strings.Map(func(r rune) rune {
		if r >= 'a' && r <= 'z' || r >= 'A' && r <= 'Z' || r >= '0' && r <= '9' || r == '_' || r == '.' {
			return r
		}
		return '_'
	}, hint)
	name := fmt.Sprintf("%s!%d", hint, c.nsym)
	c.declare(name, sort)
	return name
}

// assume adds an assumption valid under the current reach condition.
func (c *Ctx) assume(t string) {
	if t == "true" || t == "" || c.quant > 0 {
		return
	}
	c.asserts = append(c.asserts, implies(c.curReach, t))
	c.assertTags = append(c.assertTags, c.curTopBlock)
}

// assumeAlways adds a definitional fact (independent of reachability).
func (c *Ctx) assumeAlways(t string) {
	if t == "true" || t == "" || c.quant > 0 {
		return
	}
	c.asserts = append(c.asserts, t)
	c.assertTags = append(c.assertTags, c.curTopBlock)
}

// define introduces a fresh constant equal to term (keeps terms small).
func (c *Ctx) define(hint, sort, term string) string {
	if len(term) < 40 || c.quant > 0 {
		return term
	}
	n := c.fresh(hint, sort)
	c.asserts = append(c.asserts, eq(n, term))
	c.assertTags = append(c.assertTags, c.curTopBlock)
	return n
}

// ---------- heap access ----------

func (c *Ctx) compSort(leafSort string, dim int) string {
	switch dim {
	case 0:
		return leafSort
	case 1:
		return "(Array Int " + leafSort + ")"
	}
	return "(Array Int (Array Int " + leafSort + "))"
}

// H returns the current term of a component, declaring its initial version on demand.
func (c *Ctx) H(st *State, leaf, sort string) string {
	if st.placeholder {
		found := false
		for _, l := range c.phLeaves {
			if l[0] == leaf {
				found = true
			}
		}
		if !found {
			c.phLeaves = append(c.phLeaves, [2]string{leaf, sort})
		}
		return sym("$h." + leaf)
	}
	if t, ok := st.heap[leaf]; ok {
		return t
	}
	name := epochName(leaf, st.epochOf(leaf))
	if _, seen := c.declared[name]; !seen {
		c.declare(name, sort)
		nx := "$next@0"
		if ep := st.epochOf(leaf); ep != 0 {
			nx = c.epochNext[ep]
		}
		c.refBoundAxiom(name, leaf, sort, nx)
		if st.epochOf(leaf) == 0 && c.fn != nil && c.fn.Synthetic == "package initializer" && c.fn.Pkg != nil && strings.HasPrefix(leaf, "G:"+c.fn.Pkg.Pkg.Path()+".") {
			// when a package initializer starts, the package's variables still hold their zero values
			if z := zeroOfSort(sort); z != "" {
				func() {
					defer func(q, b int) { c.quant, c.curTopBlock = q, b }(c.quant, c.curTopBlock)
					c.quant, c.curTopBlock = 0, -1
					c.assumeAlways(eq(name, z))
				}()
			}
		}
	}
	if c.compSorts == nil {
		c.compSorts = map[string]string{}
	}
	c.compSorts[leaf] = sort
	// note: not stored into st.heap so that every state derived from the same
	// epoch agrees on that version.
	return name
}

// zeroOfSort: the zero value of a scalar sort ("" if there is no simple term).
func zeroOfSort(sort string) string {
	switch sort {
	case "Int":
		return "0"
	case "Bool":
		return "false"
	case "Str":
		return "(mkStr 0 0 0)"
	case "Slice":
		return "(mkSlice 0 0 0 0)"
	case "Iface":
		return "(mkIface 0 0)"
	}
	return ""
}

// refBoundAxiom: a heap component version of unknown content holds only references below the
// allocation frontier at which it came into being (so later allocations are distinct from them).
func (c *Ctx) refBoundAxiom(name, leaf, sort, nx string) {
	if nx == "" || leaf == "$next" {
		return
	}
	if strings.HasPrefix(leaf, "M:") && strings.HasSuffix(leaf, ".has") && strings.HasPrefix(sort, "(Array Int (Array ") && rtypedMapLeaf(leaf) {
		// modelling convention: memory that is not allocated yet holds no map entries (make() returns an
		// empty map, and nothing else ever writes a map component at a reference it does not own)
		ks := strings.TrimSuffix(strings.TrimPrefix(sort, "(Array Int (Array "), " Bool))")
		func() {
			defer func(q, b int) { c.quant, c.curTopBlock = q, b }(c.quant, c.curTopBlock)
			c.quant = 0
			c.curTopBlock = -1
			c.assumeAlways(fmt.Sprintf("(forall ((r Int) (k %s)) (! (=> (>= r %s) (not (select (select %s r) k))) :pattern ((select (select %s r) k))))", ks, nx, name, name))
		}()
	}
	if strings.HasPrefix(leaf, "M:") && strings.HasSuffix(leaf, ".val") && c.ptrLeaves[leaf] && strings.HasSuffix(sort, " Int))") {
		// references stored in a map of unknown content lie below the allocation frontier
		ks := strings.TrimSuffix(strings.TrimPrefix(sort, "(Array Int (Array "), " Int))")
		func() {
			defer func(q, b int) { c.quant, c.curTopBlock = q, b }(c.quant, c.curTopBlock)
			c.quant = 0
			c.curTopBlock = -1
			c.assumeAlways(fmt.Sprintf("(forall ((r Int) (k %s)) (! (< (select (select %s r) k) %s) :pattern ((select (select %s r) k))))", ks, name, nx, name))
		}()
	}
	inner := sort
	dim := 0
	for strings.HasPrefix(inner, "(Array Int ") && dim < 2 {
		// map components (M:) are indexed by key sorts; only peel reference dimensions
		if strings.HasPrefix(leaf, "M:") && dim == 1 {
			break
		}
		inner = inner[len("(Array Int ") : len(inner)-1]
		dim++
	}
	var bound func(t string) string
	switch {
	case inner == "Slice":
		bound = func(t string) string { return app("<", app("lref", t), nx) }
	case inner == "Int" && c.ptrLeaves[leaf]:
		bound = func(t string) string { return app("<", t, nx) }
	default:
		return
	}
	defer func(q, b int) { c.quant, c.curTopBlock = q, b }(c.quant, c.curTopBlock)
	c.quant = 0
	c.curTopBlock = -1 // a closed, global fact: relevant to every obligation
	switch dim {
	case 0:
		c.assumeAlways(bound(name))
	case 1:
		c.assumeAlways(fmt.Sprintf("(forall ((r Int)) (! %s :pattern ((select %s r))))", bound(app("select", name, "r")), name))
	case 2:
		c.assumeAlways(fmt.Sprintf("(forall ((r Int) (i Int)) (! %s :pattern ((select (select %s r) i))))", bound(app("select", app("select", name, "r"), "i")), name))
	}
}

func (c *Ctx) setH(st *State, leaf, term string) {
	st.heap[leaf] = term
}

func (c *Ctx) next(st *State) string { return c.H(st, "$next", "Int") }

// allocRef returns a fresh reference distinct from everything allocated so far.
func (c *Ctx) allocRef(st *State, hint string) string {
	n := c.next(st)
	// freeze the reference in a constant so that later $next updates do not matter
	ref := c.fresh(hint, "Int")
	if c.allocRefs == nil {
		c.allocRefs = map[string]bool{}
	}
	c.allocRefs[ref] = true
	c.assumeAlways(eq(ref, n))
	if c.dry > 0 && c.wr != nil {
		c.wr.addComp("$next\x00Int", "")
	}
	c.setH(st, "$next", c.defineInt("next", app("+", ref, "1")))
	return ref
}

func (c *Ctx) defineInt(hint, term string) string {
	if c.quant > 0 {
		return term
	}
	n := c.fresh(hint, "Int")
	c.assumeAlways(eq(n, term))
	return n
}

// leaves enumerates scalar leaves of a (possibly struct) type.
func leaves(t types.Type, path []int, f func(path []int, lt types.Type)) {
	if st, ok := t.Underlying().(*types.Struct); ok {
		for i := 0; i < st.NumFields(); i++ {
			leaves(st.Field(i).Type(), append(append([]int{}, path...), i), f)
		}
		return
	}
	f(path, t)
}

func (c *Ctx) noteLeafType(leaf string, lt types.Type) {
	switch lt.Underlying().(type) {
	case *types.Pointer, *types.Map:
		if c.ptrLeaves == nil {
			c.ptrLeaves = map[string]bool{}
		}
		c.ptrLeaves[leaf] = true
	}
}

func (c *Ctx) loadLeaf(st *State, p *Ptr, path []int) (string, types.Type) {
	leaf, lt := leafName(p.Comp, p.T0, path)
	c.noteLeafType(leaf, lt)
	ls := sortOf(lt)
	if ls == "" {
		c.unsupported("load of composite leaf %s", leaf)
		ls = "Int"
	}
	h := c.H(st, leaf, c.compSort(ls, p.Dim))
	switch p.Dim {
	case 0:
		return h, lt
	case 1:
		return app("select", h, p.Ref), lt
	}
	if p.Idx == "" { // whole inner array (pointer to array object)
		return app("select", h, p.Ref), lt
	}
	return app("select", app("select", h, p.Ref), p.Idx), lt
}

func (c *Ctx) storeLeaf(st *State, p *Ptr, path []int, term string) {
	leaf, lt := leafName(p.Comp, p.T0, path)
	c.noteLeafType(leaf, lt)
	ls := sortOf(lt)
	if ls == "" {
		c.unsupported("store of composite leaf %s", leaf)
		return
	}
	sort := c.compSort(ls, p.Dim)
	h := c.H(st, leaf, sort)
	var nh string
	switch p.Dim {
	case 0:
		nh = term
	case 1:
		nh = app("store", h, p.Ref, term)
	default:
		if p.Idx == "" {
			nh = app("store", h, p.Ref, term)
		} else {
			nh = app("store", h, p.Ref, app("store", app("select", h, p.Ref), p.Idx, term))
		}
	}
	if c.dry > 0 && c.wr != nil {
		ref := p.Ref
		if p.Dim == 0 {
			ref = ""
		}
		if p.Dim == 2 && p.WinLo != "" {
			c.wr.addWin(leaf+"\x00"+sort, ref, p.WinLo, p.WinHi)
		} else {
			c.wr.addComp(leaf+"\x00"+sort, ref)
		}
	}
	// keep heap terms small: name each new version
	c.nsym++
	name := fmt.Sprintf("%s@%d", leaf, c.nsym)
	name = sym(name)
	c.declare(name, sort)
	c.assumeAlways(eq(name, nh))
	c.setH(st, leaf, name)
}

// Load reads the value at p.
func (c *Ctx) Load(st *State, p *Ptr) *Val {
	if p.Reg != nil {
		v := st.regs[*p.Reg]
		if v == nil {
			if p.Reg.al == nil {
				v = c.zeroVal(p.Elem)
			} else {
				v = c.zeroVal(p.Reg.al.Type().(*types.Pointer).Elem())
			}
			st.regs[*p.Reg] = v
		}
		for _, i := range p.Path {
			if v.Fs == nil || i >= len(v.Fs) {
				c.unsupported("register path load")
				return c.freshVal(p.Elem, "regload")
			}
			v = v.Fs[i]
		}
		if p.Sub != "" {
			at := p.Elem
			return c.wf(&Val{T: at, Term: app("select", v.Term, p.Sub)})
		}
		return v
	}
	return c.loadAt(st, p, p.Path, p.Elem, p.Sub)
}

func (c *Ctx) loadAt(st *State, p *Ptr, path []int, t types.Type, sub string) *Val {
	if sub != "" {
		// p addresses an array-sorted leaf; sub selects an element
		term, _ := c.loadLeaf(st, p, path)
		return c.wf(&Val{T: t, Term: app("select", term, sub)})
	}
	if stt, ok := t.Underlying().(*types.Struct); ok {
		v := &Val{T: t}
		for i := 0; i < stt.NumFields(); i++ {
			v.Fs = append(v.Fs, c.loadAt(st, p, append(append([]int{}, path...), i), stt.Field(i).Type(), ""))
		}
		return v
	}
	term, _ := c.loadLeaf(st, p, path)
	return c.wf(&Val{T: t, Term: term})
}

// maxObjSize: no slice or string is larger than 2^40 bytes/elements (memory exhaustion is outside the model).
const maxObjSize = "1099511627776"

// wf adds the typing assumptions of a loaded / fresh scalar (lazily instantiated type invariant).
func (c *Ctx) wf(v *Val) *Val {
	if v.Term == "" {
		return v
	}
	// name big terms
	if len(v.Term) > 60 {
		s := sortOf(v.T)
		if s != "" {
			v = &Val{T: v.T, Term: c.define("v", s, v.Term), P: v.P}
		}
	}
	if lo, hi, ok := intRange(v.T); ok {
		c.assumeAlways(and(app("<=", lo, v.Term), app("<=", v.Term, hi)))
		return v
	}
	switch v.T.Underlying().(type) {
	case *types.Slice:
		t := v.Term
		c.assumeAlways(and(app("<=", "0", app("loff", t)), app("<=", "0", app("llen", t)),
			app("<=", app("llen", t), app("lcap", t)), app("<=", "0", app("lref", t)),
			implies(eq(app("lref", t), "0"), eq(app("lcap", t), "0")),
			app("<=", app("+", app("loff", t), app("lcap", t)), maxObjSize)))
	case *types.Basic:
		if sortOf(v.T) == "Str" {
			c.assumeAlways(and(app("<=", "0", app("slen", v.Term)), app("<=", "0", app("soff", v.Term)),
				app("<=", app("slen", v.Term), maxObjSize)))
		}
	case *types.Interface:
		// the nil interface value is unique: no dynamic type, no payload
		c.assumeAlways(implies(eq(app("itag", v.Term), "0"), eq(app("ival", v.Term), "0")))
	case *types.Pointer, *types.Map:
		c.assumeAlways(app("<=", "0", v.Term))
		if rtyped(v.T) {
			c.assume(or(eq(v.Term, "0"), eq(app("rtype", v.Term), num(int64(c.prog.typeTag(v.T))))))
		}
	}
	return v
}

// wfRefs: references held in v point below the current allocation frontier.
func (c *Ctx) wfRefs(st *State, v *Val) {
	if v == nil {
		return
	}
	for _, f := range v.Fs {
		c.wfRefs(st, f)
	}
	if v.Term == "" {
		return
	}
	n := c.next(st)
	switch v.T.Underlying().(type) {
	case *types.Slice:
		c.assumeAlways(app("<", app("lref", v.Term), n))
	case *types.Pointer, *types.Map:
		c.assumeAlways(app("<", v.Term, n))
	}
}

// Store writes v at p.
func (c *Ctx) Store(st *State, p *Ptr, v *Val) {
	if p.Reg != nil {
		if c.dry > 0 && c.wr != nil {
			c.wr.regs[*p.Reg] = true
		}
		if len(p.Path) == 0 && p.Sub == "" {
			st.regs[*p.Reg] = v
			return
		}
		old := st.regs[*p.Reg]
		if old == nil {
			old = c.zeroVal(p.Reg.al.Type().(*types.Pointer).Elem())
		}
		st.regs[*p.Reg] = c.updatePath(old, p.Path, p.Sub, v)
		return
	}
	c.storeAt(st, p, p.Path, p.Elem, p.Sub, v)
}

func (c *Ctx) updatePath(old *Val, path []int, sub string, v *Val) *Val {
	if len(path) == 0 {
		if sub != "" {
			return &Val{T: old.T, Term: app("store", old.Term, sub, v.Term)}
		}
		return v
	}
	n := &Val{T: old.T, Fs: append([]*Val{}, old.Fs...)}
	if path[0] >= len(n.Fs) {
		c.unsupported("register path store")
		return old
	}
	n.Fs[path[0]] = c.updatePath(old.Fs[path[0]], path[1:], sub, v)
	return n
}

func (c *Ctx) storeAt(st *State, p *Ptr, path []int, t types.Type, sub string, v *Val) {
	if sub != "" {
		term, _ := c.loadLeaf(st, p, path)
		c.storeLeaf(st, p, path, app("store", term, sub, v.Term))
		return
	}
	if stt, ok := t.Underlying().(*types.Struct); ok {
		for i := 0; i < stt.NumFields(); i++ {
			var fv *Val
			if v.Fs != nil && i < len(v.Fs) {
				fv = v.Fs[i]
			} else {
				fv = c.zeroVal(stt.Field(i).Type())
			}
			c.storeAt(st, p, append(append([]int{}, path...), i), stt.Field(i).Type(), "", fv)
		}
		return
	}
	if v.Term == "" {
		c.unsupported("store of value without term (type %s)", shortTypeName(t))
		return
	}
	c.storeLeaf(st, p, path, v.Term)
}

// ptrOf turns a pointer value into an lvalue description.
func (c *Ctx) ptrOf(v *Val) *Ptr {
	if v.P != nil {
		return v.P
	}
	pt, ok := v.T.Underlying().(*types.Pointer)
	if !ok {
		c.unsupported("deref of non-pointer %s", shortTypeName(v.T))
		return &Ptr{Comp: "C:?", Dim: 1, Ref: "0", T0: types.Typ[types.Int], Elem: types.Typ[types.Int]}
	}
	return c.refPtr(pt.Elem(), v.Term)
}

func (c *Ctx) refPtr(elem types.Type, ref string) *Ptr {
	switch u := elem.Underlying().(type) {
	case *types.Struct:
		return &Ptr{Comp: "F:" + typeName(elem), Dim: 1, Ref: ref, T0: elem, Elem: elem}
	case *types.Array:
		return &Ptr{Comp: "E:" + typeName(u.Elem()), Dim: 2, Ref: ref, T0: u.Elem(), Elem: elem}
	}
	return &Ptr{Comp: "C:" + typeName(elem), Dim: 1, Ref: ref, T0: elem, Elem: elem}
}

// ---------- value construction ----------

func (c *Ctx) freshVal(t types.Type, hint string) *Val {
	switch u := t.Underlying().(type) {
	case *types.Struct:
		v := &Val{T: t}
		for i := 0; i < u.NumFields(); i++ {
			v.Fs = append(v.Fs, c.freshVal(u.Field(i).Type(), hint+"."+u.Field(i).Name()))
		}
		return v
	case *types.Tuple:
		v := &Val{T: t}
		for i := 0; i < u.Len(); i++ {
			v.Fs = append(v.Fs, c.freshVal(u.At(i).Type(), fmt.Sprintf("%s.%d", hint, i)))
		}
		return v
	}
	s := sortOf(t)
	if s == "" {
		c.unsupported("fresh value of type %s", shortTypeName(t))
		s = "Int"
	}
	return c.wf(&Val{T: t, Term: c.fresh(hint, s)})
}

func zeroTerm(t types.Type) string {
	s := sortOf(t)
	switch s {
	case "Int":
		return "0"
	case "Bool":
		return "false"
	case "Str":
		return "(mkStr 0 0 0)"
	case "Slice":
		return "(mkSlice 0 0 0 0)"
	case "Iface":
		return "(mkIface 0 0)"
	case "F64":
		return "f64.zero"
	case "C128":
		return "c128.zero"
	case "Opaque":
		return "opaque.zero"
	}
	if strings.HasPrefix(s, "(Array Int ") {
		if a, ok := t.Underlying().(*types.Array); ok {
			return "((as const " + s + ") " + zeroTerm(a.Elem()) + ")"
		}
	}
	return ""
}

func (c *Ctx) zeroVal(t types.Type) *Val {
	switch u := t.Underlying().(type) {
	case *types.Struct:
		v := &Val{T: t}
		for i := 0; i < u.NumFields(); i++ {
			v.Fs = append(v.Fs, c.zeroVal(u.Field(i).Type()))
		}
		return v
	case *types.Tuple:
		v := &Val{T: t}
		for i := 0; i < u.Len(); i++ {
			v.Fs = append(v.Fs, c.zeroVal(u.At(i).Type()))
		}
		return v
	}
	z := zeroTerm(t)
	if z == "" {
		c.unsupported("zero value of type %s", shortTypeName(t))
		z = "0"
	}
	if strings.Contains(z, "f64.zero") {
		c.declare("f64.zero", "F64")
	}
	if strings.Contains(z, "c128.zero") {
		c.declare("c128.zero", "C128")
	}
	if strings.Contains(z, "opaque.zero") {
		c.declare("opaque.zero", "Opaque")
	}
	return &Val{T: t, Term: z}
}

func boolVal(term string) *Val { return &Val{T: types.Typ[types.Bool], Term: term} }
func intVal(term string) *Val  { return &Val{T: types.Typ[types.Int], Term: term} }

// strConst returns the Str term for a Go string constant.
func (c *Ctx) strConst(s string) string {
	if s == "" {
		return "(mkStr 0 0 0)"
	}
	if t, ok := c.strConsts[s]; ok {
		return t
	}
	// closed facts about a literal: recorded even when first needed under a quantifier
	defer func(q, b int) { c.quant, c.curTopBlock = q, b }(c.quant, c.curTopBlock)
	c.quant = 0
	c.curTopBlock = -1 // a closed, global fact: relevant to every obligation
	id := c.prog.strConstID(s)
	ref := num(int64(-1000 - id))
	t := fmt.Sprintf("(mkStr %s 0 %d)", ref, len(s))
	c.strConsts[s] = t
	if len(s) <= 96 {
		var fs []string
		for i := 0; i < len(s); i++ {
			fs = append(fs, eq(app("strbyte", ref, num(int64(i))), num(int64(s[i]))))
		}
		c.assumeAlways(and(fs...))
	}
	c.assumeAlways(eq(app("strid", t), num(int64(-1000-id))))
	return t
}

// mergeVals builds the value that equals vs[i] under conds[i].
func (c *Ctx) mergeVals(vs []*Val, conds []string, hint string) *Val {
	same := true
	for _, v := range vs[1:] {
		if !sameVal(v, vs[0]) {
			same = false
			break
		}
	}
	if same {
		return vs[0]
	}
	v0 := vs[0]
	if v0 == nil {
		return nil
	}
	if v0.Fs != nil {
		out := &Val{T: v0.T}
		for i := range v0.Fs {
			sub := make([]*Val, len(vs))
			for j, v := range vs {
				if v == nil || i >= len(v.Fs) {
					c.unsupported("merge of mismatched composites")
					return v0
				}
				sub[j] = v.Fs[i]
			}
			out.Fs = append(out.Fs, c.mergeVals(sub, conds, hint))
		}
		return out
	}
	if v0.Term == "" {
		// Go-side pointers: only mergeable if identical
		c.unsupported("merge of distinct interior pointers")
		return v0
	}
	s := sortOf(v0.T)
	if s == "" {
		s = "Int"
	}
	if c.quant > 0 || c.pure > 0 {
		t := vs[len(vs)-1].Term
		for j := len(vs) - 2; j >= 0; j-- {
			t = ite(conds[j], vs[j].Term, t)
		}
		return &Val{T: v0.T, Term: t}
	}
	n := c.fresh(hint, s)
	for j, v := range vs {
		if v == nil || v.Term == "" {
			c.unsupported("merge with missing term")
			continue
		}
		c.assumeAlways(implies(conds[j], eq(n, v.Term)))
	}
	return &Val{T: v0.T, Term: n}
}

func sameVal(a, b *Val) bool {
	if a == b {
		return true
	}
	if a == nil || b == nil {
		return false
	}
	if a.Term != b.Term || len(a.Fs) != len(b.Fs) {
		return false
	}
	if (a.P == nil) != (b.P == nil) {
		return false
	}
	if a.P != nil && !samePtr(a.P, b.P) {
		return false
	}
	for i := range a.Fs {
		if !sameVal(a.Fs[i], b.Fs[i]) {
			return false
		}
	}
	return true
}

func samePtr(a, b *Ptr) bool {
	if (a.Reg == nil) != (b.Reg == nil) {
		return false
	}
	if a.Reg != nil && *a.Reg != *b.Reg {
		return false
	}
	if a.Comp != b.Comp || a.Dim != b.Dim || a.Ref != b.Ref || a.Idx != b.Idx || a.Sub != b.Sub || len(a.Path) != len(b.Path) {
		return false
	}
	for i := range a.Path {
		if a.Path[i] != b.Path[i] {
			return false
		}
	}
	return true
}

// mergeStates joins states under edge conditions.
func (c *Ctx) mergeStates(sts []*State, conds []string) *State {
	if len(sts) == 1 {
		return sts[0].clone()
	}
	out := &State{regs: map[regKey]*Val{}, heap: map[string]string{}, epoch: sts[0].epoch, pepoch: sts[0].pepoch, placeholder: sts[0].placeholder}
	for _, s := range sts[1:] {
		if s.epoch != out.epoch {
			// different unknown-heap epochs: components never touched so far become unknown
			c.nepoch++
			out.epoch = c.nepoch
			break
		}
	}
	for _, s := range sts[1:] {
		if s.pepoch != out.pepoch {
			c.nepoch++
			out.pepoch = c.nepoch
			break
		}
	}
	// registers
	keys := map[regKey]bool{}
	for _, s := range sts {
		for k := range s.regs {
			keys[k] = true
		}
	}
	var klist []regKey
	for k := range keys {
		klist = append(klist, k)
	}
	sort.Slice(klist, func(i, j int) bool {
		a, b := klist[i], klist[j]
		if a.frame != b.frame {
			return a.frame < b.frame
		}
		if a.al != nil && b.al != nil && a.al != b.al {
			return a.al.Pos() < b.al.Pos() || (a.al.Pos() == b.al.Pos() && a.al.Name() < b.al.Name())
		}
		return a.extra < b.extra
	})
	for _, k := range klist {
		vs := make([]*Val, len(sts))
		missing := false
		for i, s := range sts {
			vs[i] = s.regs[k]
			if vs[i] == nil {
				missing = true
			}
		}
		if missing {
			// defined on some paths only: dead on the others. keep any definition
			for _, v := range vs {
				if v != nil {
					for i := range vs {
						if vs[i] == nil {
							vs[i] = v
						}
					}
					break
				}
			}
		}
		name := "m"
		if k.al != nil {
			name = k.al.Comment
			if name == "" {
				name = k.al.Name()
			}
		}
		out.regs[k] = c.mergeVals(vs, conds, name)
	}
	// heap
	hk := map[string]bool{}
	for _, s := range sts {
		for k := range s.heap {
			hk[k] = true
		}
	}
	if out.epoch != sts[0].epoch || out.pepoch != sts[0].pepoch {
		// epochs differ: every component known so far must be joined explicitly
		for k := range c.compSorts {
			hk[k] = true
		}
	}
	var hlist []string
	for k := range hk {
		hlist = append(hlist, k)
	}
	sort.Strings(hlist)
	for _, k := range hlist {
		terms := make([]string, len(sts))
		same := true
		for i, s := range sts {
			t, ok := s.heap[k]
			if !ok {
				t = epochName(k, s.epochOf(k))
			}
			terms[i] = t
			if t != terms[0] {
				same = false
			}
		}
		if same {
			if _, ok := sts[0].heap[k]; ok || out.epochOf(k) != sts[0].epochOf(k) {
				out.heap[k] = terms[0]
			}
			continue
		}
		// need the sort: look at declared sort of any version
		srt := c.compSorts[k]
		for _, t := range terms {
			if s, ok := c.declared[t]; ok && srt == "" {
				srt = s
				break
			}
		}
		if srt == "" {
			c.unsupported("merge: unknown sort for component %s", k)
			continue
		}
		for _, t := range terms {
			if _, ok := c.declared[t]; !ok {
				c.declare(t, srt)
			}
		}
		c.nsym++
		n := sym(fmt.Sprintf("%s@%d", k, c.nsym))
		c.declare(n, srt)
		for i, t := range terms {
			c.assumeAlways(implies(conds[i], eq(n, t)))
		}
		out.heap[k] = n
	}
	return out
}
