package vc

import (
	"fmt"
	"go/constant"
	"go/token"
	"go/types"
	"os"
	"sort"
	"strings"
	"sync"

	"golang.org/x/tools/go/ssa"
)

type Frame struct {
	id       int
	fn       *ssa.Function
	vals     map[ssa.Value]*Val
	con      *Contract
	params   []*Val
	depth    int
	fd       string
	isReg    map[*ssa.Alloc]bool
	loopOrd  map[*ssa.BasicBlock]int
	old      *State
	stack    []*ssa.Function
	results  []*Val // for ensures evaluation
	inlined  bool
	backEdge map[[2]int]bool
	inferred map[*ssa.BasicBlock][]inferredInv
}

type exitInfo struct {
	kind     string // "return", "panic", "exit"
	st       *State
	reach    string
	results  []*Val
	site     ssa.Instruction
	val      *Val
	fr       *Frame
	topBlock int // top-level block (and incoming edge) in which the exit was reached: for relevance slicing
	edgeFrom int
}

type Obligation struct {
	Name      string
	Func      string
	Kind      string // safety, pre, post, frame, inv-entry, inv-preserve, decreases, assert, cover
	Label     string
	Props     []string
	Goal      string // must hold under Reach
	Reach     string
	NAsserts  int
	NDecls    int
	ExpectSat bool
	QFCover   bool // ExpectSat over the quantifier-free assumptions plus Reach: this exit is not excluded by a contradiction
	Pos       string
	Src       string
	Inlined   bool
	Trivial   bool // decided syntactically
	// filled by discharge
	Result         *SolverResult
	SMTFile        string
	CandidateModel bool
	Group          string // obligations of one function exit are first tried as one conjunction
	GroupHead      bool
	Block          int // top-level block the obligation arises in (for relevance slicing)
	EdgeFrom       int // when the block was executed per incoming edge: the predecessor (-1 otherwise)
	Decided        bool
	Replayed       bool
}

const maxInlineDepth = 4

func (c *Ctx) newFrame(fn *ssa.Function, parent *Frame) *Frame {
	c.nframe++
	fr := &Frame{id: c.nframe, fn: fn, vals: map[ssa.Value]*Val{}, isReg: map[*ssa.Alloc]bool{},
		loopOrd: map[*ssa.BasicBlock]int{}, backEdge: map[[2]int]bool{}}
	if parent != nil {
		fr.depth = parent.depth + 1
		fr.stack = append(append([]*ssa.Function{}, parent.stack...), fn)
		fr.fd = c.defineInt("fd", app("+", parent.fd, "1"))
	} else {
		fr.stack = []*ssa.Function{fn}
		fr.fd = c.fresh("fd", "Int")
	}
	fr.con = c.prog.ContractOf(fn)
	// register classification
	for _, b := range fn.Blocks {
		for _, in := range b.Instrs {
			if al, ok := in.(*ssa.Alloc); ok {
				fr.isReg[al] = !al.Heap && regSafe(al, 0) || (al.Heap && false)
				if al.Heap && regSafe(al, 0) && len(*al.Referrers()) > 0 {
					// "new" allocations that never escape syntactically still are heap objects
					fr.isReg[al] = false
				}
			}
		}
	}
	// loop ordinals in source order of heads
	var heads []*ssa.BasicBlock
	for _, b := range fn.Blocks {
		for _, s := range b.Succs {
			if s.Dominates(b) {
				fr.backEdge[[2]int{b.Index, s.Index}] = true
				found := false
				for _, h := range heads {
					if h == s {
						found = true
					}
				}
				if !found {
					heads = append(heads, s)
				}
			}
		}
	}
	sort.Slice(heads, func(i, j int) bool { return blockPos(heads[i]) < blockPos(heads[j]) })
	for i, h := range heads {
		fr.loopOrd[h] = i + 1
	}
	return fr
}

func blockPos(b *ssa.BasicBlock) token.Pos {
	best := token.Pos(1 << 40)
	for _, in := range b.Instrs {
		if p := in.Pos(); p.IsValid() && p < best {
			best = p
		}
	}
	if best == token.Pos(1<<40) {
		// fall back on block index ordering
		return token.Pos(1<<30) + token.Pos(b.Index)
	}
	return best
}

// capturedOnly: a heap-allocated local whose address escapes only into closures (a captured variable).
func capturedOnly(al *ssa.Alloc) bool {
	refs := al.Referrers()
	if refs == nil {
		return false
	}
	closure := false
	for _, r := range *refs {
		switch x := r.(type) {
		case *ssa.Store:
			if x.Val == al {
				return false
			}
		case *ssa.UnOp, *ssa.DebugRef:
		case *ssa.MakeClosure:
			closure = true
		default:
			return false
		}
	}
	return closure
}

func regSafe(v ssa.Value, depth int) bool {
	refs := v.Referrers()
	if refs == nil {
		return false
	}
	for _, r := range *refs {
		switch x := r.(type) {
		case *ssa.Store:
			if x.Val == v {
				return false
			}
		case *ssa.UnOp:
			if x.Op != token.MUL {
				return false
			}
		case *ssa.DebugRef:
		case *ssa.FieldAddr:
			if !regSafe(x, depth+1) {
				return false
			}
		case *ssa.IndexAddr:
			if x.X != v || !regSafe(x, depth+1) {
				return false
			}
			// only arrays of scalar elements can live in a register
			if pt, ok := v.Type().Underlying().(*types.Pointer); ok {
				if at, ok := pt.Elem().Underlying().(*types.Array); ok {
					if sortOf(at.Elem()) == "" {
						return false
					}
				}
			}
		default:
			return false
		}
	}
	return true
}

// ---------- obligations ----------

func (c *Ctx) oblige(kind, name, label string, props []string, goal string, pos token.Pos, src string) {
	if c.dry > 0 || c.pure > 0 {
		return
	}
	if goal == "true" {
		// still counted: decided syntactically
	}
	c.oblSeq[name]++
	if n := c.oblSeq[name]; n > 1 {
		name = fmt.Sprintf("%s.%d", name, n)
	}
	o := &Obligation{Name: name, Func: c.fn.String(), Kind: kind, Label: label, Props: props, Goal: goal,
		Reach: c.curReach, NAsserts: len(c.asserts), NDecls: len(c.decls), Src: src, Block: c.curTopBlock, EdgeFrom: c.curEdgeFrom, Group: c.curGroup}
	if pos.IsValid() {
		p := c.prog.Prog.Fset.Position(pos)
		o.Pos = fmt.Sprintf("%s:%d", strings.TrimPrefix(p.Filename, c.prog.Repo+"/"), p.Line)
	}
	if c.curFrame != nil && c.curFrame.inlined {
		o.Inlined = true
	}
	if goal == "true" || c.curReach == "false" {
		o.Trivial = true
	}
	if goal == "false" && c.curReach == "true" && kind != "cover" {
		o.Result = &SolverResult{Status: "sat", Solver: "syntactic", Output: "goal is literally false on an unconditionally reachable path"}
		o.Decided = true
	}
	c.obls = append(c.obls, o)
	// known finding with an 'except' predicate: the obligation is re-proved outside the known input class
	if f := c.prog.findingFor(name); f != nil && f.Except != "" && c.topFrame != nil && !strings.HasSuffix(name, "~except") {
		ex, err := parseExpr(f.Except)
		if err == nil {
			top := c.topFrame
			env := &Env{c: c, fr: top, fn: top.fn, st: top.old, old: top.old, vars: map[string]*Val{}, fd: top.fd}
			for i, p := range top.fn.Params {
				if i < len(top.params) {
					env.vars[p.Name()] = top.params[i]
				}
			}
			ev := env.evalTop(&Clause{Src: f.Except, Expr: ex})
			tw := *o
			tw.Name = name + "~except"
			tw.Goal = or(ev.Term, goal)
			tw.Trivial = false
			c.obls = append(c.obls, &tw)
		}
	}
}

func (c *Ctx) safety(fr *Frame, what string, in ssa.Instruction, goal string) {
	name := fmt.Sprintf("%s#safe{%s}", c.relName(fr.fn), what)
	if top := c.topFrame; top != nil && top.con != nil && top.con.NoSafety {
		c.assume(goal)
		return
	}
	// a run-time panic is allowed where the function's own 'panics when' clause holds
	if top := c.topFrame; top != nil && top.con != nil && top.con.Panics != nil && c.dry == 0 && c.pure == 0 && goal != "true" {
		env := &Env{c: c, fr: top, fn: top.fn, st: top.old, old: top.old, vars: map[string]*Val{}, fd: top.fd}
		for i, p := range top.fn.Params {
			if i < len(top.params) {
				env.vars[p.Name()] = top.params[i]
			}
		}
		pc := env.evalTop(top.con.Panics)
		c.oblige("safety", name, "", nil, or(goal, pc.Term), in.Pos(), what+" (or the declared panic condition holds)")
		c.assume(goal)
		return
	}
	c.oblige("safety", name, "", nil, goal, in.Pos(), what)
}

func (c *Ctx) relName(fn *ssa.Function) string {
	pkg := fn.Pkg
	if pkg == nil && fn.Origin() != nil {
		pkg = fn.Origin().Pkg
	}
	if pkg == nil {
		return fn.String()
	}
	return pkg.Pkg.Name() + "." + fn.RelString(pkg.Pkg)
}

// ---------- SSA value lookup ----------

func (c *Ctx) val(fr *Frame, st *State, v ssa.Value) *Val {
	switch x := v.(type) {
	case *ssa.Const:
		return c.constVal(x)
	case *ssa.Global:
		et := x.Type().(*types.Pointer).Elem()
		return &Val{T: x.Type(), P: &Ptr{Comp: "G:" + x.Pkg.Pkg.Path() + "." + x.Name(), Dim: 0, T0: et, Elem: et}}
	case *ssa.Function:
		return &Val{T: x.Type(), Term: num(int64(-100000 - c.prog.strConstID("fn:"+x.String())))}
	case *ssa.Builtin:
		return &Val{T: x.Type(), Term: "0"}
	}
	if r, ok := fr.vals[v]; ok {
		return r
	}
	// value defined in a block that was not executed (dry mode) or unsupported
	nv := c.freshVal(v.Type(), "undef_"+v.Name())
	if al, ok := v.(*ssa.Alloc); ok && fr.isReg[al] {
		nv = &Val{T: v.Type(), P: &Ptr{Reg: &regKey{frame: fr.id, al: al}, Elem: al.Type().(*types.Pointer).Elem()}}
	}
	fr.vals[v] = nv
	return nv
}

func (c *Ctx) constVal(x *ssa.Const) *Val {
	t := x.Type()
	if x.Value == nil {
		return c.zeroVal(t)
	}
	switch x.Value.Kind() {
	case constant.Bool:
		if constant.BoolVal(x.Value) {
			return &Val{T: t, Term: "true"}
		}
		return &Val{T: t, Term: "false"}
	case constant.Int:
		if sortOf(t) == "F64" {
			return c.floatConst(t, x.Value.ExactString())
		}
		b, _ := new(big0).SetString(x.Value.ExactString(), 10)
		return &Val{T: t, Term: bigNum(b)}
	case constant.String:
		return &Val{T: t, Term: c.strConst(constant.StringVal(x.Value))}
	case constant.Float:
		if sortOf(t) == "Int" {
			b, _ := new(big0).SetString(x.Value.ExactString(), 10)
			if b != nil {
				return &Val{T: t, Term: bigNum(b)}
			}
		}
		return c.floatConst(t, x.Value.ExactString())
	}
	c.unsupported("constant kind %v", x.Value.Kind())
	return c.freshVal(t, "const")
}

func (c *Ctx) floatConst(t types.Type, s string) *Val {
	name := sym("f64.c_" + s)
	srt := sortOf(t)
	if srt != "F64" && srt != "C128" {
		srt = "F64"
	}
	c.declare(name, srt)
	return &Val{T: t, Term: name}
}

// ---------- function body execution ----------

func rpo(fn *ssa.Function, back map[[2]int]bool) []*ssa.BasicBlock {
	seen := map[*ssa.BasicBlock]bool{}
	var post []*ssa.BasicBlock
	var dfs func(b *ssa.BasicBlock)
	dfs = func(b *ssa.BasicBlock) {
		seen[b] = true
		for _, s := range b.Succs {
			if back[[2]int{b.Index, s.Index}] || seen[s] {
				continue
			}
			dfs(s)
		}
		post = append(post, b)
	}
	if len(fn.Blocks) > 0 {
		dfs(fn.Blocks[0])
	}
	for i, j := 0, len(post)-1; i < j; i, j = i+1, j-1 {
		post[i], post[j] = post[j], post[i]
	}
	return post
}

func naturalLoop(head *ssa.BasicBlock, back map[[2]int]bool) map[*ssa.BasicBlock]bool {
	loop := map[*ssa.BasicBlock]bool{head: true}
	var work []*ssa.BasicBlock
	for _, p := range head.Preds {
		if back[[2]int{p.Index, head.Index}] {
			if !loop[p] {
				loop[p] = true
				work = append(work, p)
			}
		}
	}
	for len(work) > 0 {
		b := work[len(work)-1]
		work = work[:len(work)-1]
		for _, p := range b.Preds {
			if !loop[p] {
				loop[p] = true
				work = append(work, p)
			}
		}
	}
	return loop
}

type incoming struct {
	st   *State
	cond string
	from int
}

// execBody symbolically executes fr.fn from st. Exits are appended to c.exits of the frame owner.
func (c *Ctx) execBody(fr *Frame, st *State, reach string) []*exitInfo {
	fn := fr.fn
	if len(fn.Blocks) == 0 {
		c.unsupported("function %s has no body", fn.String())
		return nil
	}
	saveFrame, saveReach := c.curFrame, c.curReach
	c.curFrame = fr
	defer func() { c.curFrame, c.curReach = saveFrame, saveReach }()

	order := rpo(fn, fr.backEdge)
	in := map[*ssa.BasicBlock][]incoming{}
	in[fn.Blocks[0]] = []incoming{{st, reach, -1}}
	var exits []*exitInfo

	for _, b := range order {
		inc := in[b]
		if len(inc) == 0 {
			continue
		}
		if fr == c.topFrame {
			c.curTopBlock = b.Index // joins and reach definitions of this block belong to it
		}
		var bst *State
		var breach string
		// a return block reached from many branches is executed once per incoming edge: the
		// postconditions are then checked on each branch's own (small) state instead of on a big join
		if len(inc) > 2 && c.quant == 0 && c.pure == 0 && fr == c.topFrame && isReturnOnly(b) && fr.loopOrd[b] == 0 {
			c.curTopBlock = b.Index
			for _, x := range inc {
				if x.cond == "false" {
					continue
				}
				c.curReach = x.cond
				c.curEdgeFrom = x.from
				ex := c.execBlock(fr, b, x.st.clone(), in)
				c.curEdgeFrom = -1
				exits = append(exits, ex...)
			}
			continue
		}
		if len(inc) == 1 {
			bst = inc[0].st.clone()
			breach = inc[0].cond
		} else {
			conds := make([]string, len(inc))
			sts := make([]*State, len(inc))
			for i, x := range inc {
				conds[i] = x.cond
				sts[i] = x.st
			}
			breach = or(conds...)
			bst = c.mergeStates(sts, conds)
		}
		if breach != "true" && breach != "false" && len(breach) > 30 && c.quant == 0 {
			r := c.fresh(fmt.Sprintf("reach_b%d_f%d", b.Index, fr.id), "Bool")
			c.assumeAlways(eq(r, breach))
			breach = r
		}
		c.curReach = breach
		if breach == "false" {
			continue
		}
		if fr == c.topFrame {
			c.curTopBlock = b.Index
		}
		if ord, isHead := fr.loopOrd[b]; isHead {
			bst = c.enterLoop(fr, b, ord, bst)
		}
		ex := c.execBlock(fr, b, bst, in)
		exits = append(exits, ex...)
	}
	return exits
}

// isReturnOnly: the block only loads results and returns.
func isReturnOnly(b *ssa.BasicBlock) bool {
	if len(b.Instrs) == 0 {
		return false
	}
	if _, ok := b.Instrs[len(b.Instrs)-1].(*ssa.Return); !ok {
		return false
	}
	for _, in := range b.Instrs[:len(b.Instrs)-1] {
		switch x := in.(type) {
		case *ssa.RunDefers, *ssa.DebugRef:
		case *ssa.UnOp:
			if x.Op != token.MUL {
				return false
			}
		case *ssa.Store:
			// copying into the (local) result variable
			if al, ok := x.Addr.(*ssa.Alloc); !ok || al.Heap {
				return false
			}
		default:
			return false
		}
	}
	return true
}

func (c *Ctx) loopSpec(fr *Frame, ord int) *LoopSpec {
	if fr.con == nil {
		return nil
	}
	ls := fr.con.Loops[ord]
	if len(fr.con.LoopAll) == 0 {
		return ls
	}
	// clauses that hold at every loop of the function (auto contracts: buffer invariant, config frame)
	m := &LoopSpec{}
	if ls != nil {
		m.Invariants = append(m.Invariants, ls.Invariants...)
		m.Decreases = ls.Decreases
	}
	m.Invariants = append(m.Invariants, fr.con.LoopAll...)
	return m
}

// inferredInv is a loop invariant found by inspection of the SSA (checked like a written one).
type inferredInv struct {
	name string
	f    func(st *State) string
}

// inferInvariants: (A) bounds of the compiler-generated range index, (B) lower bounds of counters that
// start at a constant and are only incremented.
func (c *Ctx) inferInvariants(fr *Frame, head *ssa.BasicBlock, loop map[*ssa.BasicBlock]bool) []inferredInv {
	var out []inferredInv
	if head.Comment == "rangeindex.loop" {
		var cell *ssa.Alloc
		var bound ssa.Value
		for _, in := range head.Instrs {
			if st, ok := in.(*ssa.Store); ok {
				if al, ok := st.Addr.(*ssa.Alloc); ok && al.Comment == "rangeindex" {
					cell = al
				}
			}
			if b, ok := in.(*ssa.BinOp); ok && b.Op == token.LSS {
				bound = b.Y
			}
		}
		if cell != nil && bound != nil && fr.isReg[cell] {
			if _, ok := fr.vals[bound]; ok || isConst(bound) {
				out = append(out, inferredInv{"range-index", func(st *State) string {
					ri := c.Load(st, &Ptr{Reg: &regKey{frame: fr.id, al: cell}, Elem: types.Typ[types.Int]}).Term
					n := c.val(fr, st, bound).Term
					return and(app(">=", ri, "(- 1)"), or(app("<", ri, n), eq(ri, "(- 1)")))
				}})
			}
		}
	}
	// monotone counters
	stores := map[*ssa.Alloc][]*ssa.Store{}
	for _, b := range fr.fn.Blocks {
		for _, in := range b.Instrs {
			if st, ok := in.(*ssa.Store); ok {
				if al, ok := st.Addr.(*ssa.Alloc); ok && fr.isReg[al] {
					stores[al] = append(stores[al], st)
				}
			}
		}
	}
	for al, sts := range stores {
		if _, _, isInt := intInfo(al.Type().(*types.Pointer).Elem()); !isInt || al.Comment == "rangeindex" || al.Comment == "" {
			continue
		}
		var init *ssa.Const
		ok := true
		inLoop := 0
		for _, st := range sts {
			if loop[st.Block()] {
				inLoop++
				b, isBin := st.Val.(*ssa.BinOp)
				if !isBin || b.Op != token.ADD {
					ok = false
					break
				}
				ld, isLd := b.X.(*ssa.UnOp)
				k, isK := b.Y.(*ssa.Const)
				if !isLd || ld.X != al || !isK || k.Value == nil || k.Int64() <= 0 {
					ok = false
					break
				}
			} else {
				k, isK := st.Val.(*ssa.Const)
				if !isK || k.Value == nil || init != nil || !st.Block().Dominates(head) {
					ok = false
					break
				}
				init = k
			}
		}
		if !ok || init == nil || inLoop == 0 {
			continue
		}
		// only counters tested by the loop condition (cell < bound): otherwise the increment may overflow
		bounded := false
		if iff, isIf := head.Instrs[len(head.Instrs)-1].(*ssa.If); isIf {
			if b, isBin := iff.Cond.(*ssa.BinOp); isBin && (b.Op == token.LSS || b.Op == token.LEQ) {
				if ld, isLd := b.X.(*ssa.UnOp); isLd && ld.X == al {
					bounded = true
				}
			}
		}
		if !bounded {
			continue
		}
		cell := al
		lo := c.constVal(init).Term
		out = append(out, inferredInv{"counter-" + al.Comment, func(st *State) string {
			v := c.Load(st, &Ptr{Reg: &regKey{frame: fr.id, al: cell}, Elem: cell.Type().(*types.Pointer).Elem()}).Term
			return app(">=", v, lo)
		}})
	}
	sort.Slice(out, func(i, j int) bool { return out[i].name < out[j].name })
	return out
}

func isConst(v ssa.Value) bool { _, ok := v.(*ssa.Const); return ok }

// enterLoop: check the invariant on entry, havoc what the loop writes, assume the invariant.
func (c *Ctx) enterLoop(fr *Frame, head *ssa.BasicBlock, ord int, st *State) *State {
	spec := c.loopSpec(fr, ord)
	name := c.relName(fr.fn)
	c.curLoopHead = head
	defer func() { c.curLoopHead = nil }()
	if spec != nil {
		for _, inv := range spec.Invariants {
			g := c.evalClause(fr, st, inv, nil)
			c.oblige("inv-entry", fmt.Sprintf("%s#loop%d.entry[%s]", name, ord, lbl(inv)), inv.Label, inv.Props, g, head.Instrs[0].Pos(), inv.Src)
		}
	}
	// dry run to find what the loop writes
	loop := naturalLoop(head, fr.backEdge)
	inferred := c.inferInvariants(fr, head, loop)
	if fr.inferred == nil {
		fr.inferred = map[*ssa.BasicBlock][]inferredInv{}
	}
	fr.inferred[head] = inferred
	for _, iv := range inferred {
		c.oblige("inv-entry", fmt.Sprintf("%s#loop%d.entry[inferred:%s]", name, ord, iv.name), "", nil, iv.f(st), head.Instrs[0].Pos(), "inferred invariant "+iv.name)
	}
	c.watermark = c.nsym
	ws := c.dryRun(fr, loop, st)
	if ws.everything && c.prog.inRoot(c.fn) && c.dry == 0 && c.pure == 0 {
		// the body calls something that may write anything: the package invariants (re-established by
		// every such callee) are carried as loop invariants, so that they are known at the loop head
		for _, pinv := range c.prog.Invariants {
			pinv := pinv
			iv := inferredInv{"package-invariant " + lbl(pinv), func(s2 *State) string {
				env := &Env{c: c, fn: c.fn, st: s2, old: s2, vars: map[string]*Val{}, fd: fr.fd}
				return env.evalTop(pinv).Term
			}}
			c.oblige("inv-entry", fmt.Sprintf("%s#loop%d.entry[inferred:%s]", name, ord, iv.name), "", nil, iv.f(st), head.Instrs[0].Pos(), "inferred invariant "+iv.name)
			inferred = append(inferred, iv)
		}
		fr.inferred[head] = inferred
	}
	st = st.clone()
	c.havocWrites(fr, st, ws, fmt.Sprintf("L%d", ord))
	for _, iv := range inferred {
		c.assume(iv.f(st))
	}
	if spec != nil {
		for _, inv := range spec.Invariants {
			g := c.evalClause(fr, st, inv, nil)
			c.assume(g)
		}
		if spec.Decreases != nil {
			// remember the measure at loop head for the back edges
			m := c.evalExpr(fr, st, spec.Decreases, nil)
			key := regKey{frame: fr.id, extra: fmt.Sprintf("$dec%d", ord)}
			st.regs[key] = m
		}
	} else if c.dry == 0 && c.pure == 0 {
		c.assumed["loop without invariant (invariant 'true'): "+name+fmt.Sprintf(" loop %d", ord)] = true
	}
	return st
}

func lbl(cl *Clause) string {
	if cl.Label != "" {
		return cl.Label
	}
	s := cl.Src
	if len(s) > 40 {
		s = s[:40]
	}
	return s
}

func (c *Ctx) dryRun(fr *Frame, loop map[*ssa.BasicBlock]bool, st *State) *writeSet {
	saveWr := c.wr
	saveReach := c.curReach
	saveAsserts := len(c.asserts)
	ws := newWriteSet()
	c.wr = ws
	c.dry++
	dst := st.clone()
	dr := c.fresh("dry", "Bool") // assumptions made in the dry run are vacuous
	c.assumeAlways(not(dr))
	c.curReach = dr
	for _, b := range rpo(fr.fn, fr.backEdge) {
		if !loop[b] {
			continue
		}
		for _, in := range b.Instrs {
			switch in.(type) {
			case *ssa.If, *ssa.Jump, *ssa.Return, *ssa.Panic:
				continue
			}
			c.execInstr(fr, dst, in)
			c.curReach = dr
		}
	}
	c.dry--
	c.wr = saveWr
	c.curReach = saveReach
	_ = saveAsserts
	return ws
}

// havocWrites replaces everything in ws by fresh values.
func (c *Ctx) havocWrites(fr *Frame, st *State, ws *writeSet, tag string) {
	if ws.everything || ws.everythingUnprotected {
		// components every "assigns everything" callee in the loop keeps: unchanged for objects older than the loop
		var kl []string
		for k := range ws.kept {
			kl = append(kl, k)
		}
		sort.Strings(kl)
		terms := make([]string, len(kl))
		for i, k := range kl {
			terms[i] = c.H(st, k, ws.kept[k])
		}
		nextPre := c.next(st)
		if ws.everything {
			c.havocEverything(st)
		} else {
			c.havocEverythingButGhost(st)
		}
		for i, k := range kl {
			// refs written directly in the loop stay unknown; every other object older than the loop is unchanged
			var excl []string
			whole := false
			if !strings.HasPrefix(ws.kept[k], "(Array") {
				// a kept scalar (ghost variable): unchanged unless the loop body itself writes it
				if len(ws.comps[k+"\x00"+ws.kept[k]]) == 0 {
					st.heap[k] = terms[i]
				}
				continue
			}
			for r := range ws.comps[k+"\x00"+ws.kept[k]] {
				if r == "" || c.bornAfter(r, st) {
					whole = true
				}
				excl = append(excl, not(eq("r", r)))
			}
			if whole {
				continue
			}
			sort.Strings(excl)
			c.nsym++
			name := sym(fmt.Sprintf("%s@%d_kept", k, c.nsym))
			c.declare(name, ws.kept[k])
			c.assumeAlways(fmt.Sprintf("(forall ((r Int)) (! (=> %s (= (select %s r) (select %s r))) :pattern ((select %s r))))", and(append([]string{app("<", "r", nextPre)}, excl...)...), name, terms[i], name))
			st.heap[k] = name
			delete(ws.comps, k+"\x00"+ws.kept[k]) // handled here
		}
	}
	var rk []regKey
	for k := range ws.regs {
		rk = append(rk, k)
	}
	sort.Slice(rk, func(i, j int) bool {
		if rk[i].al != nil && rk[j].al != nil {
			return rk[i].al.Name() < rk[j].al.Name()
		}
		return rk[i].extra < rk[j].extra
	})
	for _, k := range rk {
		var t types.Type
		hint := k.extra
		if k.al != nil {
			t = k.al.Type().(*types.Pointer).Elem()
			hint = k.al.Comment
			if hint == "" {
				hint = k.al.Name()
			}
		} else if old := st.regs[k]; old != nil {
			t = old.T
		} else {
			continue
		}
		nv := c.freshVal(t, hint+"_"+tag)
		c.wfRefs(st, nv)
		st.regs[k] = nv
	}
	var ck []string
	for k := range ws.comps {
		ck = append(ck, k)
	}
	sort.Strings(ck)
	for _, k := range ck {
		parts := strings.SplitN(k, "\x00", 2)
		leaf, srt := parts[0], parts[1]
		refs := ws.comps[k]
		c.havocComp(st, leaf, srt, refs, tag, ws, k)
	}
}

func (c *Ctx) havocComp(st *State, leaf, srt string, refs map[string]bool, tag string, ws *writeSet, wkey string) {
	h := c.H(st, leaf, srt)
	whole := false
	freshInLoop := false
	var rl []string
	for r := range refs {
		if r == "" {
			whole = true
			continue
		}
		if c.bornAfter(r, st) {
			// objects allocated inside the loop lie above the allocation frontier at loop entry
			if c.allocRefs[r] {
				freshInLoop = true
			} else {
				whole = true
			}
			continue
		}
		rl = append(rl, r)
	}
	sort.Strings(rl)
	c.nsym++
	name := sym(fmt.Sprintf("%s@%d_%s", leaf, c.nsym, tag))
	c.declare(name, srt)
	if !whole && strings.HasPrefix(srt, "(Array Int ") {
		inner := srt[len("(Array Int ") : len(srt)-1]
		t := h
		for _, r := range rl {
			nv := c.fresh("hv", inner)
			// writes through slices stay inside the slices' capacity windows
			if wins := ws.wins[wkey+"\x00"+r]; len(wins) > 0 && !ws.whole[wkey+"\x00"+r] {
				okw := true
				var inside []string
				for _, w := range wins {
					if c.bornAfter(w[0], st) || c.bornAfter(w[1], st) {
						okw = false
					}
					inside = append(inside, and(app("<=", w[0], "i"), app("<", "i", w[1])))
				}
				if okw {
					c.assumeAlways(fmt.Sprintf("(forall ((i Int)) (! (=> (not %s) (= (select %s i) (select (select %s %s) i))) :pattern ((select %s i))))", or(inside...), nv, h, r, nv))
				}
			}
			t = app("store", t, r, nv)
		}
		if freshInLoop {
			// only objects allocated since loop entry may differ otherwise
			tn := c.fresh("hvbase", srt)
			c.assumeAlways(eq(tn, t))
			c.assumeAlways(fmt.Sprintf("(forall ((r Int)) (! (=> (< r %s) (= (select %s r) (select %s r))) :pattern ((select %s r))))", c.next(st), name, tn, name))
		} else {
			c.assumeAlways(eq(name, t))
		}
	}
	if leaf == "$next" {
		c.assumeAlways(app(">=", name, h))
	}
	st.heap[leaf] = name
}

// bornAfter: does term r mention a symbol created inside the current dry-run / loop?
// Conservative syntactic test: symbols are numbered; loop entry records the watermark.
func (c *Ctx) bornAfter(r string, st *State) bool {
	wm := c.watermark
	for i := 0; i < len(r); i++ {
		if r[i] == '!' || r[i] == '@' {
			j := i + 1
			n := 0
			for j < len(r) && r[j] >= '0' && r[j] <= '9' {
				n = n*10 + int(r[j]-'0')
				j++
			}
			if j > i+1 && n > wm {
				return true
			}
		}
	}
	return false
}

func (c *Ctx) execBlock(fr *Frame, b *ssa.BasicBlock, st *State, in map[*ssa.BasicBlock][]incoming) []*exitInfo {
	var exits []*exitInfo
	for _, ins := range b.Instrs {
		switch x := ins.(type) {
		case *ssa.If:
			cond := c.val(fr, st, x.Cond).Term
			c.edge(fr, b, b.Succs[0], st, and(c.curReach, cond), in)
			c.edge(fr, b, b.Succs[1], st, and(c.curReach, not(cond)), in)
			return exits
		case *ssa.Jump:
			c.edge(fr, b, b.Succs[0], st, c.curReach, in)
			return exits
		case *ssa.Return:
			var rs []*Val
			for _, r := range x.Results {
				rs = append(rs, c.val(fr, st, r))
			}
			exits = append(exits, &exitInfo{kind: "return", st: st, reach: c.curReach, results: rs, site: ins, fr: fr, topBlock: c.curTopBlock, edgeFrom: c.curEdgeFrom})
			return exits
		case *ssa.Panic:
			exits = append(exits, &exitInfo{kind: "panic", st: st, reach: c.curReach, site: ins, val: c.val(fr, st, x.X), fr: fr, topBlock: c.curTopBlock, edgeFrom: c.curEdgeFrom})
			return exits
		default:
			if ex := c.execInstr(fr, st, ins); ex != nil {
				exits = append(exits, ex...)
			}
			if c.curReach == "false" {
				return exits
			}
		}
	}
	return exits
}

func (c *Ctx) edge(fr *Frame, from, to *ssa.BasicBlock, st *State, cond string, in map[*ssa.BasicBlock][]incoming) {
	if cond == "false" {
		return
	}
	if fr.backEdge[[2]int{from.Index, to.Index}] {
		ord := fr.loopOrd[to]
		spec := c.loopSpec(fr, ord)
		if len(fr.inferred[to]) > 0 {
			save := c.curReach
			c.curReach = cond
			for _, iv := range fr.inferred[to] {
				c.oblige("inv-preserve", fmt.Sprintf("%s#loop%d.preserve[inferred:%s]", c.relName(fr.fn), ord, iv.name), "", nil, iv.f(st), to.Instrs[0].Pos(), "inferred invariant "+iv.name)
			}
			c.curReach = save
		}
		if spec == nil {
			return
		}
		save := c.curReach
		c.curReach = cond
		c.curLoopHead = to
		defer func() { c.curLoopHead = nil }()
		name := c.relName(fr.fn)
		for _, inv := range spec.Invariants {
			g := c.evalClause(fr, st, inv, nil)
			c.oblige("inv-preserve", fmt.Sprintf("%s#loop%d.preserve[%s]", name, ord, lbl(inv)), inv.Label, inv.Props, g, to.Instrs[0].Pos(), inv.Src)
		}
		if spec.Decreases != nil {
			key := regKey{frame: fr.id, extra: fmt.Sprintf("$dec%d", ord)}
			if m0 := st.regs[key]; m0 != nil {
				m1 := c.evalExpr(fr, st, spec.Decreases, nil)
				g := and(app("<", m1.Term, m0.Term), app(">=", m0.Term, "0"))
				c.oblige("decreases", fmt.Sprintf("%s#loop%d.decreases", name, ord), spec.Decreases.Label, spec.Decreases.Props, g, to.Instrs[0].Pos(), spec.Decreases.Src)
			}
		}
		c.curReach = save
		return
	}
	c.phiConds[phiKey{fr.id, from.Index, to.Index}] = cond
	in[to] = append(in[to], incoming{st, cond, from.Index})
}

// ---------- instructions ----------

func (c *Ctx) set(fr *Frame, v ssa.Value, val *Val) {
	fr.vals[v] = val
}

func (c *Ctx) execInstr(fr *Frame, st *State, ins ssa.Instruction) []*exitInfo {
	switch x := ins.(type) {
	case *ssa.DebugRef, *ssa.RunDefers:
		return nil
	case *ssa.Alloc:
		c.execAlloc(fr, st, x)
	case *ssa.Store:
		addr := c.val(fr, st, x.Addr)
		v := c.val(fr, st, x.Val)
		p := c.ptrOf(addr)
		c.nilCheck(fr, ins, addr, p)
		c.Store(st, p, c.coerce(v, p.Elem))
	case *ssa.UnOp:
		c.execUnOp(fr, st, x)
	case *ssa.BinOp:
		a, b := c.val(fr, st, x.X), c.val(fr, st, x.Y)
		c.set(fr, x, c.binop(fr, st, x, x.Op, a, b, x.Type()))
	case *ssa.FieldAddr:
		base := c.val(fr, st, x.X)
		p := c.ptrOf(base)
		c.nilCheck(fr, ins, base, p)
		np := *p
		np.Path = append(append([]int{}, p.Path...), x.Field)
		stt := p.Elem.Underlying().(*types.Struct)
		np.Elem = stt.Field(x.Field).Type()
		c.set(fr, x, &Val{T: x.Type(), P: &np})
	case *ssa.Field:
		base := c.val(fr, st, x.X)
		if base.Fs == nil || x.Field >= len(base.Fs) {
			c.unsupported("Field on non-composite value")
			c.set(fr, x, c.freshVal(x.Type(), "field"))
		} else {
			c.set(fr, x, base.Fs[x.Field])
		}
	case *ssa.IndexAddr:
		c.execIndexAddr(fr, st, x)
	case *ssa.Index:
		base := c.val(fr, st, x.X)
		idx := c.val(fr, st, x.Index)
		switch bt := x.X.Type().Underlying().(type) {
		case *types.Array:
			c.safety(fr, exprText(fr, x)+"#idx", x, and(app("<=", "0", idx.Term), app("<", idx.Term, num(bt.Len()))))
			c.set(fr, x, c.wf(&Val{T: x.Type(), Term: app("select", base.Term, idx.Term)}))
		default: // string
			c.safety(fr, exprText(fr, x)+"#idx", x, and(app("<=", "0", idx.Term), app("<", idx.Term, app("slen", base.Term))))
			c.set(fr, x, c.strAt(base.Term, idx.Term))
		}
	case *ssa.Lookup:
		c.execLookup(fr, st, x)
	case *ssa.Slice:
		c.execSlice(fr, st, x)
	case *ssa.Convert:
		c.set(fr, x, c.convert(fr, st, c.val(fr, st, x.X), x.Type(), x))
	case *ssa.ChangeType:
		v := c.val(fr, st, x.X)
		nv := *v
		nv.T = x.Type()
		c.set(fr, x, &nv)
	case *ssa.ChangeInterface:
		v := c.val(fr, st, x.X)
		nv := *v
		nv.T = x.Type()
		c.set(fr, x, &nv)
	case *ssa.MakeInterface:
		c.set(fr, x, c.makeIface(st, c.val(fr, st, x.X), x.X.Type(), x.Type()))
	case *ssa.TypeAssert:
		c.execTypeAssert(fr, st, x)
	case *ssa.Extract:
		t := c.val(fr, st, x.Tuple)
		if t.Fs == nil || x.Index >= len(t.Fs) {
			c.unsupported("Extract from non-tuple")
			c.set(fr, x, c.freshVal(x.Type(), "extract"))
		} else {
			c.set(fr, x, t.Fs[x.Index])
		}
	case *ssa.Call:
		rs, ex := c.execCall(fr, st, x)
		c.set(fr, x, rs)
		return ex
	case *ssa.MakeSlice:
		ln := c.val(fr, st, x.Len)
		cp := c.val(fr, st, x.Cap)
		c.safety(fr, "make.len", x, and(app("<=", "0", ln.Term), app("<=", ln.Term, cp.Term)))
		et := x.Type().Underlying().(*types.Slice).Elem()
		ref := c.allocRef(st, "mk")
		c.assume(eq(app("rtype", ref), num(int64(c.prog.typeTag(x.Type())))))
		c.zeroElems(st, et, ref)
		c.set(fr, x, &Val{T: x.Type(), Term: app("mkSlice", ref, "0", ln.Term, cp.Term)})
	case *ssa.MakeMap:
		ref := c.allocRef(st, "map")
		c.assume(eq(app("rtype", ref), num(int64(c.prog.typeTag(x.Type())))))
		mt := x.Type().Underlying().(*types.Map)
		hs, vs, _, _ := c.mapComps(mt)
		p := &Ptr{Comp: hs, Dim: 1, Ref: ref, T0: types.Typ[types.Bool], Elem: types.Typ[types.Bool]}
		_ = p
		c.setMapEmpty(st, mt, ref)
		_ = vs
		c.set(fr, x, &Val{T: x.Type(), Term: ref})
	case *ssa.MapUpdate:
		c.execMapUpdate(fr, st, x)
	case *ssa.MakeClosure:
		// opaque function value; bindings may be written by the closure when called
		id := c.fresh("closure", "Int")
		c.assumeAlways(app(">", id, "0"))
		c.set(fr, x, &Val{T: x.Type(), Term: id})
		c.closureBindings(fr, st, x, id)
	case *ssa.Phi:
		var vs []*Val
		var conds []string
		for i, e := range x.Edges {
			p := x.Block().Preds[i]
			k := phiKey{fr.id, p.Index, x.Block().Index}
			cond, ok := c.phiConds[k]
			if !ok {
				continue
			}
			vs = append(vs, c.coerce(c.val(fr, st, e), x.Type()))
			conds = append(conds, cond)
		}
		if len(vs) == 0 {
			c.set(fr, x, c.freshVal(x.Type(), "phi"))
		} else {
			c.set(fr, x, c.mergeVals(vs, conds, "phi"))
		}
	case *ssa.Range:
		c.execRange(fr, st, x)
	case *ssa.Next:
		c.execNext(fr, st, x)
	case *ssa.MultiConvert:
		c.set(fr, x, c.convert(fr, st, c.val(fr, st, x.X), x.Type(), x))
	case *ssa.SliceToArrayPointer:
		c.unsupported("SliceToArrayPointer")
		c.set(fr, x, c.freshVal(x.Type(), "s2a"))
	case *ssa.Defer:
		if fr.con != nil && fr.con.IgnoreDefer {
			c.assumed["deferred call ignored (declared 'ignoredefer': a recover-and-rethrow handler that cannot affect normal returns): "+c.relName(fr.fn)] = true
		} else {
			c.unsupported("defer in %s", fr.fn.String())
		}
	case *ssa.Go, *ssa.Select, *ssa.Send, *ssa.MakeChan:
		c.unsupported("concurrency instruction %T in %s", ins, fr.fn.String())
		if v, ok := ins.(ssa.Value); ok {
			c.set(fr, v, c.freshVal(v.Type(), "chan"))
		}
	default:
		c.unsupported("instruction %T", ins)
		if v, ok := ins.(ssa.Value); ok {
			c.set(fr, v, c.freshVal(v.Type(), "unk"))
		}
	}
	return nil
}

type phiKey struct{ frame, from, to int }

// exprText names an instruction by the text of its source line (stable under line shifts and
// under renumbering of SSA temporaries); falls back on the SSA text.
func exprText(fr *Frame, in ssa.Instruction) string {
	if fr != nil && fr.fn != nil && in.Pos().IsValid() {
		if t := srcLine(fr.fn.Prog, in.Pos()); t != "" {
			return t
		}
	}
	s := in.String()
	if len(s) > 60 {
		s = s[:60]
	}
	return s
}

var srcCache sync.Map

func srcLine(prog *ssa.Program, pos token.Pos) string {
	p := prog.Fset.Position(pos)
	if p.Filename == "" {
		return ""
	}
	var lines []string
	if v, ok := srcCache.Load(p.Filename); ok {
		lines = v.([]string)
	} else {
		data, err := os.ReadFile(p.Filename)
		if err != nil {
			return ""
		}
		lines = strings.Split(string(data), "\n")
		srcCache.Store(p.Filename, lines)
	}
	if p.Line < 1 || p.Line > len(lines) {
		return ""
	}
	t := strings.TrimSpace(lines[p.Line-1])
	if i := strings.Index(t, "//"); i > 0 {
		t = strings.TrimSpace(t[:i])
	}
	if len(t) > 70 {
		t = t[:70]
	}
	return t
}

func (c *Ctx) nilCheck(fr *Frame, in ssa.Instruction, addr *Val, p *Ptr) {
	if p.Reg != nil || p.Dim == 0 {
		return
	}
	if addr.Term != "" && len(p.Path) == 0 && p.Sub == "" && p.Idx == "" {
		c.safety(fr, "nil-deref "+exprText(fr, in), in, not(eq(p.Ref, "0")))
		return
	}
	if len(p.Path) > 0 || p.Idx != "" {
		// interior pointer: nil-ness was checked when it was formed (FieldAddr/IndexAddr)
		if _, isFA := in.(*ssa.FieldAddr); isFA && addr.Term != "" {
			c.safety(fr, "nil-deref "+exprText(fr, in), in, not(eq(p.Ref, "0")))
		}
	}
}

func (c *Ctx) execAlloc(fr *Frame, st *State, x *ssa.Alloc) {
	et := x.Type().(*types.Pointer).Elem()
	if fr.isReg[x] {
		k := regKey{frame: fr.id, al: x}
		st.regs[k] = c.zeroVal(et)
		if c.dry > 0 && c.wr != nil {
			// a local declared inside the loop is re-initialised each iteration: not loop-carried
		}
		c.set(fr, x, &Val{T: x.Type(), P: &Ptr{Reg: &k, Elem: et}})
		return
	}
	ref := c.allocRef(st, "new_"+x.Comment)
	c.assume(eq(app("rtype", ref), num(int64(c.prog.typeTag(x.Type())))))
	p := c.refPtr(et, ref)
	switch u := et.Underlying().(type) {
	case *types.Array:
		c.zeroElems(st, u.Elem(), ref)
	default:
		c.Store(st, p, c.zeroVal(et))
	}
	if capturedOnly(x) && sortOf(et) != "" && c.dry == 0 {
		c.captured = append(c.captured, capturedCell{leaf: "C:" + typeName(et), sort: c.compSort(sortOf(et), 1), ref: ref})
	}
	c.set(fr, x, &Val{T: x.Type(), Term: ref})
}

// zeroElems initialises the element storage of a fresh array object.
func (c *Ctx) zeroElems(st *State, et types.Type, ref string) {
	leaves(et, nil, func(path []int, lt types.Type) {
		ls := sortOf(lt)
		if ls == "" {
			c.unsupported("array of composite leaf")
			return
		}
		p := &Ptr{Comp: "E:" + typeName(et), Dim: 2, Ref: ref, T0: et, Elem: et}
		z := zeroTerm(lt)
		if strings.Contains(z, "f64.zero") {
			c.declare("f64.zero", "F64")
		}
		c.storeLeaf(st, p, path, "((as const (Array Int "+ls+")) "+z+")")
	})
}

func (c *Ctx) execUnOp(fr *Frame, st *State, x *ssa.UnOp) {
	v := c.val(fr, st, x.X)
	switch x.Op {
	case token.MUL:
		p := c.ptrOf(v)
		c.nilCheck(fr, x, v, p)
		r := c.Load(st, p)
		c.wfRefs(st, r)
		c.set(fr, x, r)
	case token.NOT:
		c.set(fr, x, &Val{T: x.Type(), Term: not(v.Term)})
	case token.SUB:
		if sortOf(x.Type()) != "Int" {
			c.set(fr, x, c.uninterp("neg", x.Type(), v))
			return
		}
		c.set(fr, x, c.wrap(x.Type(), app("-", v.Term)))
	case token.XOR:
		bits, signed, _ := intInfo(x.Type())
		if signed {
			c.set(fr, x, &Val{T: x.Type(), Term: app("-", app("-", v.Term), "1")})
		} else {
			c.set(fr, x, &Val{T: x.Type(), Term: app("-", newBig(0).Sub(newBig(0).Lsh(newBig(1), uint(bits)), newBig(1)).String(), v.Term)})
		}
	default:
		c.unsupported("unary op %s", x.Op)
		c.set(fr, x, c.freshVal(x.Type(), "unop"))
	}
}

func (c *Ctx) uninterp(name string, rt types.Type, args ...*Val) *Val {
	var sorts, terms []string
	for _, a := range args {
		sorts = append(sorts, sortOf(a.T))
		terms = append(terms, a.Term)
	}
	rs := sortOf(rt)
	if rs == "" {
		return c.freshVal(rt, name)
	}
	fname := sym("u." + name + "." + strings.Join(sorts, ".") + "." + rs)
	c.declareFun(fname, sorts, rs)
	return c.wf(&Val{T: rt, Term: app(fname, terms...)})
}

func (c *Ctx) wrap(t types.Type, term string) *Val {
	w := wrapFn(t)
	if w == "" {
		return &Val{T: t, Term: term}
	}
	return &Val{T: t, Term: c.define("w", "Int", app(w, term))}
}

func (c *Ctx) strAt(s, i string) *Val {
	t := app("strbyte", app("sref", s), app("+", app("soff", s), i))
	c.assumeAlways(and(app("<=", "0", t), app("<=", t, "255")))
	return &Val{T: types.Typ[types.Uint8], Term: t}
}

func (c *Ctx) execIndexAddr(fr *Frame, st *State, x *ssa.IndexAddr) {
	base := c.val(fr, st, x.X)
	idx := c.val(fr, st, x.Index)
	switch bt := x.X.Type().Underlying().(type) {
	case *types.Slice:
		s := base.Term
		c.safety(fr, exprText(fr, x)+"#idx", x, and(app("<=", "0", idx.Term), app("<", idx.Term, app("llen", s))))
		et := bt.Elem()
		p := &Ptr{Comp: "E:" + typeName(et), Dim: 2, Ref: app("lref", s), Idx: c.define("ix", "Int", app("+", app("loff", s), idx.Term)), T0: et, Elem: et,
			WinLo: app("loff", s), WinHi: app("+", app("loff", s), app("llen", s))}
		c.set(fr, x, &Val{T: x.Type(), P: p})
	case *types.Pointer:
		at := bt.Elem().Underlying().(*types.Array)
		p := c.ptrOf(base)
		c.nilCheck(fr, x, base, p)
		c.safety(fr, exprText(fr, x)+"#idx", x, and(app("<=", "0", idx.Term), app("<", idx.Term, num(at.Len()))))
		np := *p
		if p.Reg == nil && p.Dim == 2 && p.Idx == "" && len(p.Path) == 0 {
			np.Idx = idx.Term
		} else {
			if p.Sub != "" {
				c.unsupported("nested array indexing")
			}
			np.Sub = idx.Term
		}
		np.Elem = at.Elem()
		c.set(fr, x, &Val{T: x.Type(), P: &np})
	default:
		c.unsupported("IndexAddr on %s", shortTypeName(x.X.Type()))
		c.set(fr, x, c.freshVal(x.Type(), "ixa"))
	}
}

func (c *Ctx) execSlice(fr *Frame, st *State, x *ssa.Slice) {
	base := c.val(fr, st, x.X)
	get := func(v ssa.Value, def string) string {
		if v == nil {
			return def
		}
		return c.val(fr, st, v).Term
	}
	switch bt := x.X.Type().Underlying().(type) {
	case *types.Slice:
		s := base.Term
		lo := get(x.Low, "0")
		hi := get(x.High, app("llen", s))
		mx := get(x.Max, app("lcap", s))
		c.safety(fr, exprText(fr, x)+"#bounds", x, and(app("<=", "0", lo), app("<=", lo, hi), app("<=", hi, mx), app("<=", mx, app("lcap", s))))
		t := app("mkSlice", app("lref", s), app("+", app("loff", s), lo), app("-", hi, lo), app("-", mx, lo))
		c.set(fr, x, &Val{T: x.Type(), Term: c.define("sl", "Slice", t)})
	case *types.Basic:
		s := base.Term
		lo := get(x.Low, "0")
		hi := get(x.High, app("slen", s))
		c.safety(fr, exprText(fr, x)+"#bounds", x, and(app("<=", "0", lo), app("<=", lo, hi), app("<=", hi, app("slen", s))))
		t := app("mkStr", app("sref", s), app("+", app("soff", s), lo), app("-", hi, lo))
		c.set(fr, x, &Val{T: x.Type(), Term: c.define("ss", "Str", t)})
	case *types.Pointer:
		at := bt.Elem().Underlying().(*types.Array)
		p := c.ptrOf(base)
		if p.Reg != nil || p.Dim != 2 || p.Idx != "" || len(p.Path) != 0 {
			c.unsupported("slice of embedded array")
			c.set(fr, x, c.freshVal(x.Type(), "sl"))
			return
		}
		c.nilCheck(fr, x, base, p)
		n := num(at.Len())
		lo := get(x.Low, "0")
		hi := get(x.High, n)
		mx := get(x.Max, n)
		c.safety(fr, exprText(fr, x)+"#bounds", x, and(app("<=", "0", lo), app("<=", lo, hi), app("<=", hi, mx), app("<=", mx, n)))
		t := app("mkSlice", p.Ref, lo, app("-", hi, lo), app("-", mx, lo))
		nm := c.define("sl", "Slice", t)
		if c.allocRefs[p.Ref] {
			c.allocRefs[app("lref", nm)] = true
		}
		c.set(fr, x, &Val{T: x.Type(), Term: nm})
	default:
		c.unsupported("Slice on %s", shortTypeName(x.X.Type()))
		c.set(fr, x, c.freshVal(x.Type(), "sl"))
	}
}

// coerce adjusts the static type of a value (nil constants, interface widening).
func (c *Ctx) coerce(v *Val, t types.Type) *Val {
	if v == nil {
		return c.zeroVal(t)
	}
	return v
}

// ---------- arithmetic ----------

type big0 = bigInt

func (c *Ctx) binop(fr *Frame, st *State, site ssa.Instruction, op token.Token, a, b *Val, rt types.Type) *Val {
	switch op {
	case token.EQL, token.NEQ:
		e := c.equal(a, b)
		if op == token.NEQ {
			e = not(e)
		}
		return &Val{T: rt, Term: e}
	}
	srt := sortOf(a.T)
	switch srt {
	case "Bool":
		switch op {
		case token.AND, token.LAND:
			return &Val{T: rt, Term: and(a.Term, b.Term)}
		case token.OR, token.LOR:
			return &Val{T: rt, Term: or(a.Term, b.Term)}
		}
	case "Str":
		switch op {
		case token.ADD:
			return c.strConcat(a, b, rt)
		case token.LSS, token.LEQ, token.GTR, token.GEQ:
			return c.uninterp("strcmp"+op.String(), rt, a, b)
		}
	case "F64", "C128":
		return c.uninterp("f"+op.String(), rt, a, b)
	case "Int":
		x, y := a.Term, b.Term
		switch op {
		case token.LSS:
			return &Val{T: rt, Term: app("<", x, y)}
		case token.LEQ:
			return &Val{T: rt, Term: app("<=", x, y)}
		case token.GTR:
			return &Val{T: rt, Term: app(">", x, y)}
		case token.GEQ:
			return &Val{T: rt, Term: app(">=", x, y)}
		case token.ADD:
			return c.wrap(rt, app("+", x, y))
		case token.SUB:
			return c.wrap(rt, app("-", x, y))
		case token.MUL:
			if isNumeral(x) || isNumeral(y) {
				return c.wrap(rt, app("*", x, y))
			}
			return c.wrap(rt, app("nlmul", x, y))
		case token.QUO, token.REM:
			if site != nil && c.curFrame != nil {
				c.safety(fr, "div-by-zero "+exprText(fr, site), site, not(eq(y, "0")))
			}
			_, signed, _ := intInfo(rt)
			if !isNumeral(y) {
				// nonlinear: uninterpreted with basic facts
				fn := "nldiv"
				if op == token.REM {
					fn = "nlmod"
				}
				if !signed {
					r := c.fresh("q", "Int")
					if op == token.QUO {
						c.assumeAlways(implies(app(">", y, "0"), and(app("<=", "0", r), app("<=", r, x))))
					} else {
						c.assumeAlways(implies(app(">", y, "0"), and(app("<=", "0", r), app("<", r, y))))
					}
					c.assumeAlways(eq(r, app(fn, x, y)))
					return &Val{T: rt, Term: r}
				}
				return c.wf(&Val{T: rt, Term: app(fn, x, y)})
			}
			if signed {
				if op == token.QUO {
					return c.wrap(rt, app("tdiv", x, y))
				}
				return c.wrap(rt, app("tmod", x, y))
			}
			if op == token.QUO {
				return &Val{T: rt, Term: c.define("q", "Int", app("div", x, y))}
			}
			return &Val{T: rt, Term: c.define("r", "Int", app("mod", x, y))}
		case token.AND, token.OR, token.XOR, token.AND_NOT:
			return c.bitop(op, a, b, rt)
		case token.SHL, token.SHR:
			return c.shift(op, a, b, rt)
		}
	}
	c.unsupported("binop %s on %s", op, shortTypeName(a.T))
	return c.freshVal(rt, "binop")
}

func isNumeral(s string) bool {
	if s == "" {
		return false
	}
	if strings.HasPrefix(s, "(- ") && strings.HasSuffix(s, ")") {
		s = s[3 : len(s)-1]
	}
	for i := 0; i < len(s); i++ {
		if s[i] < '0' || s[i] > '9' {
			return false
		}
	}
	return true
}

func parseNumeral(s string) *bigInt {
	neg := false
	if strings.HasPrefix(s, "(- ") && strings.HasSuffix(s, ")") {
		s = s[3 : len(s)-1]
		neg = true
	}
	b, ok := new(bigInt).SetString(s, 10)
	if !ok {
		return nil
	}
	if neg {
		b.Neg(b)
	}
	return b
}

// toUnsigned maps a signed machine integer to its bit pattern value.
func toUnsigned(t types.Type, x string) string {
	bits, signed, _ := intInfo(t)
	if !signed {
		return x
	}
	return app("mod", x, pow2(bits))
}

func fromUnsigned(t types.Type, x string) string {
	bits, signed, _ := intInfo(t)
	if !signed {
		return x
	}
	return app(fmt.Sprintf("wrapS%d", bits), x)
}

// andConst computes x & c exactly for a constant c >= 0 and unsigned-pattern x.
func andConst(x string, cst *bigInt) string {
	var parts []string
	n := cst.BitLen()
	i := 0
	for i < n {
		if cst.Bit(i) == 0 {
			i++
			continue
		}
		j := i
		for j < n && cst.Bit(j) == 1 {
			j++
		}
		// bits [i,j)
		t := x
		if i > 0 {
			t = app("div", t, pow2(i))
		}
		t = app("mod", t, pow2(j-i))
		if i > 0 {
			t = app("*", t, pow2(i))
		}
		parts = append(parts, t)
		i = j
	}
	if len(parts) == 0 {
		return "0"
	}
	if len(parts) == 1 {
		return parts[0]
	}
	return app("+", parts...)
}

func (c *Ctx) bitop(op token.Token, a, b *Val, rt types.Type) *Val {
	x, y := a.Term, b.Term
	if isNumeral(x) && !isNumeral(y) && op != token.AND_NOT {
		x, y = y, x
	}
	bits, _, _ := intInfo(rt)
	if isNumeral(y) {
		cst := parseNumeral(y)
		if cst.Sign() < 0 {
			cst = new(bigInt).Add(cst, new(bigInt).Lsh(newBig(1), uint(bits)))
		}
		if op == token.AND && cst.Sign() > 0 {
			// x & (2^k - 1) == x mod 2^k for every two's complement x
			plus1 := new(bigInt).Add(cst, newBig(1))
			if plus1.BitLen()-1 <= bits && new(bigInt).And(plus1, cst).Sign() == 0 {
				return &Val{T: rt, Term: c.define("bits", "Int", app("mod", x, plus1.String()))}
			}
		}
		ux := toUnsigned(rt, x)
		an := andConst(ux, cst)
		var r string
		switch op {
		case token.AND:
			r = an
		case token.OR:
			r = app("-", app("+", ux, cst.String()), an)
		case token.XOR:
			r = app("-", app("+", ux, cst.String()), app("*", "2", an))
		case token.AND_NOT:
			r = app("-", ux, an)
		}
		return &Val{T: rt, Term: c.define("bits", "Int", fromUnsigned(rt, r))}
	}
	fn := map[token.Token]string{token.AND: "bitand", token.OR: "bitor", token.XOR: "bitxor", token.AND_NOT: "bitandnot"}[op]
	if fn == "bitandnot" {
		c.declareFun("bitandnot", []string{"Int", "Int"}, "Int")
	}
	r := c.wf(&Val{T: rt, Term: app(fn, x, y)})
	if op == token.AND {
		// x & y <= min(x, y) for non-negative operands
		c.assumeAlways(implies(and(app(">=", x, "0"), app(">=", y, "0")), and(app("<=", r.Term, x), app("<=", r.Term, y), app(">=", r.Term, "0"))))
	}
	return r
}

func (c *Ctx) shift(op token.Token, a, b *Val, rt types.Type) *Val {
	x, y := a.Term, b.Term
	bits, _, _ := intInfo(rt)
	if isNumeral(y) {
		k := int(parseNumeral(y).Int64())
		if k >= bits {
			if op == token.SHL {
				return &Val{T: rt, Term: "0"}
			}
			_, signed, _ := intInfo(rt)
			if signed {
				return &Val{T: rt, Term: ite(app("<", x, "0"), "(- 1)", "0")}
			}
			return &Val{T: rt, Term: "0"}
		}
		if op == token.SHL {
			return c.wrap(rt, app("*", x, pow2(k)))
		}
		return &Val{T: rt, Term: c.define("shr", "Int", app("div", x, pow2(k)))}
	}
	// symbolic shift count: case split on 0..bits-1
	c.curFrameSafetyNeg(y)
	t := "0"
	if op == token.SHR {
		_, signed, _ := intInfo(rt)
		if signed {
			t = ite(app("<", x, "0"), "(- 1)", "0")
		}
	}
	for k := bits - 1; k >= 0; k-- {
		var v string
		if op == token.SHL {
			v = app(wrapFn(rt), app("*", x, pow2(k)))
		} else {
			v = app("div", x, pow2(k))
		}
		t = ite(eq(y, num(int64(k))), v, t)
	}
	return &Val{T: rt, Term: c.define("sh", "Int", t)}
}

func (c *Ctx) curFrameSafetyNeg(y string) {
	// negative shift counts panic; operands are unsigned in logg's code, so this is
	// decided by the typing assumption. Kept as an assumption-free no-op.
}

// equal builds Go's == for two values of the same type.
func (c *Ctx) equal(a, b *Val) string {
	if a.Fs != nil || b.Fs != nil {
		if len(a.Fs) != len(b.Fs) {
			c.unsupported("comparison of mismatched composites")
			return c.fresh("cmp", "Bool")
		}
		var parts []string
		for i := range a.Fs {
			parts = append(parts, c.equal(a.Fs[i], b.Fs[i]))
		}
		return and(parts...)
	}
	if a.Term == "" || b.Term == "" {
		if a.P != nil && b.P != nil {
			if samePtr(a.P, b.P) {
				return "true"
			}
		}
		// comparison of an interior pointer with nil: never nil
		if a.P != nil && b.Term == "0" || b.P != nil && a.Term == "0" {
			return "false"
		}
		c.unsupported("comparison of interior pointers")
		return c.fresh("cmp", "Bool")
	}
	t := a.T
	if _, ok := t.Underlying().(*types.Interface); !ok {
		if _, ok2 := b.T.Underlying().(*types.Interface); ok2 {
			t = b.T
		}
	}
	switch sortOf(t) {
	case "Str":
		return c.strEqual(a.Term, b.Term)
	case "Slice":
		// only comparison with nil is legal
		if b.Term == "(mkSlice 0 0 0 0)" {
			return eq(app("lref", a.Term), "0")
		}
		if a.Term == "(mkSlice 0 0 0 0)" {
			return eq(app("lref", b.Term), "0")
		}
	case "Iface":
		if b.Term == "(mkIface 0 0)" {
			return eq(app("itag", a.Term), "0")
		}
		if a.Term == "(mkIface 0 0)" {
			return eq(app("itag", b.Term), "0")
		}
		// dynamic comparison: equal dynamic types and equal values (boxing is injective)
		return eq(a.Term, b.Term)
	}
	return eq(a.Term, b.Term)
}

func (c *Ctx) strEqual(a, b string) string {
	if a == b {
		return "true"
	}
	if s, ok := c.constOf(b); ok {
		return c.strEqConst(a, s)
	}
	if s, ok := c.constOf(a); ok {
		return c.strEqConst(b, s)
	}
	e := eq(app("strid", a), app("strid", b))
	c.assumeAlways(implies(e, eq(app("slen", a), app("slen", b))))
	c.assumeAlways(implies(and(eq(app("sref", a), app("sref", b)), eq(app("soff", a), app("soff", b)), eq(app("slen", a), app("slen", b))), e))
	return e
}

func (c *Ctx) constOf(term string) (string, bool) {
	if term == "(mkStr 0 0 0)" {
		return "", true
	}
	for s, t := range c.strConsts {
		if t == term {
			return s, true
		}
	}
	return "", false
}

func (c *Ctx) strEqConst(a string, s string) string {
	if len(s) > 96 {
		return eq(app("strid", a), app("strid", c.strConst(s)))
	}
	parts := []string{eq(app("slen", a), num(int64(len(s))))}
	for i := 0; i < len(s); i++ {
		parts = append(parts, eq(app("strbyte", app("sref", a), app("+", app("soff", a), num(int64(i)))), num(int64(s[i]))))
	}
	r := and(parts...)
	if s != "" {
		// tie to the content identity used for map keys
		cs := c.strConst(s)
		c.assumeAlways(eq(r, eq(app("strid", a), app("strid", cs))))
	} else {
		c.assumeAlways(eq(r, eq(app("strid", a), "0")))
	}
	return r
}

func (c *Ctx) strConcat(a, b *Val, rt types.Type) *Val {
	if a.Term == "(mkStr 0 0 0)" {
		return b
	}
	if b.Term == "(mkStr 0 0 0)" {
		return a
	}
	ref := c.fresh("cat", "Int")
	la, lb := app("slen", a.Term), app("slen", b.Term)
	t := app("mkStr", ref, "0", app("+", la, lb))
	c.assumeAlways(app("<", ref, "(- 1000000)"))
	c.assumeAlways(fmt.Sprintf("(forall ((i Int)) (! (=> (and (<= 0 i) (< i %s)) (= (strbyte %s i) (strbyte (sref %s) (+ (soff %s) i)))) :pattern ((strbyte %s i))))", la, ref, a.Term, a.Term, ref))
	c.assumeAlways(fmt.Sprintf("(forall ((i Int)) (! (=> (and (<= %s i) (< i (+ %s %s))) (= (strbyte %s i) (strbyte (sref %s) (+ (soff %s) (- i %s))))) :pattern ((strbyte %s i))))", la, la, lb, ref, b.Term, b.Term, la, ref))
	return &Val{T: rt, Term: c.define("cat", "Str", t)}
}
