package vc

// Bounded stand-ins. Where a clause of a property is outside the reach of the contracts (it needs an inductive
// specification function the contract language does not have), a bounded check of the real functions stands in.
// It is labelled bounded in the output and in the evidence, is never counted among the discharged obligations,
// and a property that has one is never reported at level 'proof'.

import (
	"encoding/json"
	"fmt"
	"os"
	"os/exec"
	"path/filepath"
	"regexp"
	"strings"
	"time"
)

type boundedCheck struct {
	Name   string // reported like an obligation name
	PkgDir string // package directory below the repository root
	What   string
	Bound  map[string]string // tier -> stated bound
	N      map[string]int    // tier -> number of generated inputs
	Src    string            // in-package test; __N__ is replaced by the input count
}

var boundedChecks = map[string][]*boundedCheck{
	"C20": {{
		Name:   "times.shortDur/times.ParseDuration#bounded[C20.roundtrip]",
		PkgDir: "slog/internal/times",
		What:   "ParseDuration(SmartDurationStringEx(d, frac)) == d for both styles",
		Bound: map[string]string{
			"quick":    "0, +-1, math.MinInt64/MaxInt64 and neighbours, every unit (ns us ms s m h d) times {1,2,10,23,24,25,59,60,61,999,1000,1001} +-3ns with both signs, and 200000 generated int64 values of every magnitude (fixed seed), both styles",
			"thorough": "0, +-1, math.MinInt64/MaxInt64 and neighbours, every unit (ns us ms s m h d) times {1,2,10,23,24,25,59,60,61,999,1000,1001} +-3ns with both signs, and 5000000 generated int64 values of every magnitude (fixed seed), both styles",
		},
		N: map[string]int{"quick": 200000, "thorough": 5000000},
		Src: `package times

import (
	"math"
	"math/rand"
	"testing"
	"time"
)

func TestLvcReplay(t *testing.T) {
	n := __N__
	count := 0
	chk := func(d time.Duration) {
		for _, frac := range []bool{false, true} {
			count++
			s := SmartDurationStringEx(d, frac)
			back, err := ParseDuration(s)
			if err != nil || back != d {
				t.Fatalf("REPRODUCED: SmartDurationStringEx(%d, %v) = %q, which ParseDuration turns into %d, %v", int64(d), frac, s, int64(back), err)
			}
		}
	}
	units := []int64{1, 1e3, 1e6, 1e9, 60e9, 3600e9, 24 * 3600e9}
	for _, u := range units {
		for k := int64(-3); k <= 3; k++ {
			for _, m := range []int64{1, 2, 10, 23, 24, 25, 59, 60, 61, 999, 1000, 1001} {
				chk(time.Duration(u*m + k))
				chk(time.Duration(-(u*m + k)))
			}
		}
	}
	for _, d := range []int64{0, 1, -1, math.MaxInt64, math.MinInt64, math.MaxInt64 - 1, math.MinInt64 + 1} {
		chk(time.Duration(d))
	}
	rnd := rand.New(rand.NewSource(20))
	for i := 0; i < n/2; i++ {
		chk(time.Duration(int64(rnd.Uint64() >> uint(rnd.Intn(64)))))
		chk(-time.Duration(int64(rnd.Uint64() >> uint(1+rnd.Intn(63)))))
	}
	t.Logf("BOUNDED-OK inputs=%d", count)
}
`,
	}},
}

var boundedOKRe = regexp.MustCompile(`BOUNDED-OK inputs=(\d+)`)

// runBounded runs the bounded stand-ins of prop against the repository. It returns evidence records and
// violation lines.
func (P *Program) runBounded(prop, tier, replayDir string) ([]map[string]any, []string) {
	var recs []map[string]any
	var viols []string
	for _, b := range boundedChecks[prop] {
		os.MkdirAll(replayDir, 0o755)
		base := safeFile(b.Name)
		n := b.N[tier]
		if n == 0 {
			n = b.N["quick"]
		}
		testPath := filepath.Join(replayDir, base+"_replay_test.go")
		os.WriteFile(testPath, []byte(strings.ReplaceAll(b.Src, "__N__", fmt.Sprint(n))), 0o644)
		pkgDir := filepath.Join(P.Repo, b.PkgDir)
		ov := map[string]any{"Replace": map[string]string{filepath.Join(pkgDir, "zz_lvc_replay_test.go"): testPath}}
		ovData, _ := json.Marshal(ov)
		ovPath := filepath.Join(replayDir, base+"_overlay.json")
		os.WriteFile(ovPath, ovData, 0o644)
		cmdline := fmt.Sprintf("cd %q && go test -overlay %q -vet=off -count=1 -timeout 600s -run '^TestLvcReplay$' -v .", pkgDir, ovPath)
		cmd := exec.Command("bash", "-c", "ulimit -v 8000000; "+cmdline)
		cmd.Env = append(os.Environ(), "GOFLAGS=", "GOPROXY=off", "GOSUMDB=off", "GOTOOLCHAIN=local")
		start := time.Now()
		out, err := cmd.CombinedOutput()
		secs := time.Since(start).Seconds()
		rec := map[string]any{"name": b.Name, "kind": "bounded (not a proof)", "what": b.What, "bound": b.Bound[tier], "seconds": round3(secs)}
		if m := boundedOKRe.FindStringSubmatch(string(out)); m != nil && err == nil {
			rec["result"] = "held on every input explored"
			rec["inputs"] = m[1]
			fmt.Printf("BOUNDED %s: held on %s inputs (%.1fs) - bounded stand-in, not a proof\n", b.Name, m[1], secs)
			os.Remove(testPath)
			os.Remove(ovPath)
		} else {
			rec["result"] = "failed"
			log := filepath.Join(replayDir, base+".txt")
			os.WriteFile(log, []byte(fmt.Sprintf("property: %s\nfailed obligation: %s\n%s\nbound: %s\ncommand: %s\n---- output ----\n%s\n", prop, b.Name, b.What, b.Bound[tier], cmdline, out)), 0o644)
			if strings.Contains(string(out), "REPRODUCED") {
				viols = append(viols, fmt.Sprintf("VIOLATION property=%s replay=%s", prop, testPath))
			} else {
				viols = append(viols, fmt.Sprintf("VIOLATION property=%s replay=%s no-failing-input-found", prop, log))
			}
		}
		recs = append(recs, rec)
	}
	return recs, viols
}
