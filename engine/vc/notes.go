package vc

// propertyNotes: a note starting with "partial:" forces evidence level "other".
var propertyNotes = map[string]string{}

var propertyAssumptions = map[string][]string{}
