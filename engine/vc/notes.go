package vc

// propertyNotes: a note starting with "partial:" forces evidence level "other".
var propertyNotes = map[string]string{
	"C20": "partial: totality / in-bounds of the formatter is proved for all int64 durations; the parser's agreement with time.ParseDuration and the format/parse round trip are not decided by this check.",
}

var propertyAssumptions = map[string][]string{}
