package vc

// propertyNotes: a note starting with "partial:" forces evidence level "other".
var propertyNotes = map[string]string{
	"C04": "partial: proved up to two recorded findings (Go-style escapes, unescaped keys): the string path's escaping for message, logger name, string, []byte, error and TextMarshaler values; separators (a comma before every member except the first of an object, a colon after every key); groups as nested objects; nil as null; floats that are not finite never bare; time attributes other than the reserved one written with their exact value. Not decided: the decode round trip as a whole, the caller object, an Attr passed as a value, user marshallers.",
	"C05": "partial: the escaping path of logfmt is proved up to one recorded finding (unescaped keys): no control byte, quotes only escaped, invalid UTF-8 escaped, key before value, the exact escape segment of every rune class (what strconv.Unquote inverts), every string-like value kind of appendValue quoted; that the concatenation of the segments parses back to the whole string and the whole line to the whole record is not decided by this check.",
	"C06": "partial: proved up to one recorded finding (raw string values in colored mode): the colour on/off discipline of the record buffer (every colour reset before each line break and at the end, continuation lines coloured one by one), the four-space lead of every continuation line, the level tag's width for unregistered levels, the attributes sorted before any is printed. Not decided: the rest of the layout (field order, message padding width).",
	"C07": "partial: the assembly steps (sources and their order, inheritance, comparator, stable sort call, last-of-run dedupe, groups) are proved; that the printed list is the sorted permutation with the last occurrence surviving relies on the assumed behaviour of slices.SortStableFunc and is not decided by this check.",
	"C20": "partial: totality / in-bounds of the formatter is proved for all int64 durations; the parser's agreement with time.ParseDuration (same value, same accept/reject, for every string in which no unit token is \"d\") is proved relationally on a lockstep product generated on every run from /repo's source and the toolchain's source, run-time panics excepted (quote's are not excluded); the format/parse round trip is NOT proved: a bounded stand-in (stated bound in coverage.bounded_standins) checks it.",
}

var propertyAssumptions = map[string][]string{
	"C20": {
		"the standard parser is the one of the toolchain the check runs with ($GOROOT/src/time/format.go of the default go)",
		"lockstep product: the package-level unit tables are read through their initializer literals (that no code of either package writes them is checked syntactically on every run)",
		"lockstep product: run-time panics are outside the comparison; float64 operations are uninterpreted but deterministic functions of their operands",
	},
}
