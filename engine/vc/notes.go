package vc

// propertyNotes: a note starting with "partial:" forces evidence level "other".
var propertyNotes = map[string]string{
	"C07": "partial: the assembly steps (sources and their order, inheritance, comparator, stable sort call, last-of-run dedupe, groups) are proved; that the printed list is the sorted permutation with the last occurrence surviving relies on the assumed behaviour of slices.SortStableFunc and is not decided by this check.",
	"C20": "partial: totality / in-bounds of the formatter is proved for all int64 durations; the parser's agreement with time.ParseDuration and the format/parse round trip are not decided by this check.",
}

var propertyAssumptions = map[string][]string{}
