package vc

// propertyNotes: a note starting with "partial:" forces evidence level "other".
var propertyNotes = map[string]string{
	"C04": "partial: the JSON string path's escaping is proved up to two recorded findings (Go-style escapes, unescaped keys); groups, nil, []byte, logger name and the decode round trip are not decided by this check.",
	"C05": "partial: the escaping path of logfmt (no control byte, quotes only escaped, invalid UTF-8 escaped, key before value) is proved up to one recorded finding (unescaped keys); the parse-back round trip is not decided by this check.",
	"C06": "partial: the colour on/off discipline of the record buffer is proved up to one recorded finding (raw string values in colored mode); the layout is not decided by this check.",
	"C07": "partial: the assembly steps (sources and their order, inheritance, comparator, stable sort call, last-of-run dedupe, groups) are proved; that the printed list is the sorted permutation with the last occurrence surviving relies on the assumed behaviour of slices.SortStableFunc and is not decided by this check.",
	"C20": "partial: totality / in-bounds of the formatter is proved for all int64 durations; the parser's digit scanners consume exactly the leading digits; the parser's agreement with time.ParseDuration on whole strings and the format/parse round trip are not decided by this check.",
}

var propertyAssumptions = map[string][]string{}
