package vc

import (
	"fmt"
	"go/ast"
	"go/parser"
	"go/types"
	"os"
	"path/filepath"
	"sort"
	"strings"
	"sync"
	"time"

	"golang.org/x/tools/go/ssa"
)

func parseExpr(s string) (ast.Expr, error) { return parser.ParseExpr(s) }

// externalModels: Go-side semantics of a few standard functions (keyed by ssa Function.String()).
var externalModels = map[string]func(c *Ctx, fr *Frame, st *State, site ssa.Instruction, args []*Val, rt types.Type) *Val{}

// FuncResult is the outcome of verifying one function under contract.
type FuncResult struct {
	Func        string
	Key         string
	Contract    *Contract
	Obligations []*Obligation
	Unsupported []string
	Assumed     []string
	Inlined     []string
	Uses        []string // in-repo callees applied by contract (their contracts carry this function's proof)
	Inputs      []string // symbols worth reporting in a model
	ctx         *Ctx
	Seconds     float64
}

func (P *Program) newCtx(fn *ssa.Function) *Ctx {
	return &Ctx{prog: P, fn: fn, declared: map[string]string{}, assumed: map[string]bool{}, inlined: map[string]bool{}, uses: map[string]bool{},
		strConsts: map[string]string{}, oblSeq: map[string]int{}, curReach: "true",
		seenTypes: map[string]bool{}, seenIfaces: map[string]bool{}, phiConds: map[phiKey]string{}, atCallSeen: map[*AtClause]bool{}, curTopBlock: -1, curEdgeFrom: -1}
}

// VerifyFunc generates all obligations of fn against its contract (which may be nil: safety only).
func (P *Program) VerifyFunc(fn *ssa.Function) (res *FuncResult) {
	start := time.Now()
	c := P.newCtx(fn)
	con := P.ContractOf(fn)
	c.con = con
	res = &FuncResult{Func: c.relName(fn), Key: P.fnKey(fn), Contract: con, ctx: c}
	defer func() {
		if r := recover(); r != nil {
			if ee, ok := r.(evalError); ok {
				c.unsupported("internal: %s", string(ee))
			} else {
				panic(r)
			}
		}
		res.Obligations = c.obls
		res.Unsupported = c.unsup
		for k := range c.assumed {
			res.Assumed = append(res.Assumed, k)
		}
		sort.Strings(res.Assumed)
		for k := range c.inlined {
			res.Inlined = append(res.Inlined, k)
		}
		sort.Strings(res.Inlined)
		for k := range c.uses {
			res.Uses = append(res.Uses, k)
		}
		sort.Strings(res.Uses)
		res.Seconds = time.Since(start).Seconds()
	}()

	fr := c.newFrame(fn, nil)
	c.topFrame = fr
	c.curFrame = fr
	st := &State{regs: map[regKey]*Val{}, heap: map[string]string{}}
	c.assumeAlways(app("<", "0", c.next(st)))
	for _, p := range fn.Params {
		v := c.freshVal(p.Type(), "p_"+p.Name())
		c.wfRefs(st, v)
		fr.vals[p] = v
		fr.params = append(fr.params, v)
		if v.Term != "" {
			res.Inputs = append(res.Inputs, v.Term)
		}
	}
	for _, fv := range fn.FreeVars {
		v := c.freshVal(fv.Type(), "fv_"+fv.Name())
		c.wfRefs(st, v)
		if _, isPtr := fv.Type().Underlying().(*types.Pointer); isPtr && v.Term != "" {
			c.assumeAlways(not(eq(v.Term, "0"))) // captured variables are addresses of live variables
		}
		fr.vals[fv] = v
	}
	fr.old = st.clone()
	c.initState = fr.old
	name := c.relName(fn)
	if c.prog.inRoot(fn) {
		c.invEntry = c.assumeInvariants(st)
	}
	var props []string
	if con != nil {
		props = con.Props
	}

	penv := func(s *State) *Env {
		env := &Env{c: c, fr: fr, fn: fn, st: s, old: fr.old, vars: map[string]*Val{}, fd: fr.fd}
		for i, p := range fn.Params {
			env.vars[p.Name()] = fr.params[i]
		}
		return env
	}
	if con != nil {
		switch con.Fd {
		case "":
		case "entry":
			c.assumeAlways(eq(fr.fd, "0"))
		default:
			c.assumeAlways(eq(fr.fd, con.Fd))
		}
		for _, rq := range con.Requires {
			g := penv(st).evalTop(rq)
			c.assumeAlways(g.Term)
		}
		// vacuity guard: the precondition must be satisfiable
		c.oblige("cover", name+"#cover[requires]", "", props, "false", fn.Pos(), "precondition is satisfiable")
		c.obls[len(c.obls)-1].ExpectSat = true
		c.obls[len(c.obls)-1].Trivial = false
		for _, ef := range con.Effects {
			c.applyEffect(penv(st), st, ef)
		}
	}
	var locs []loc
	if con != nil && !con.AssignsAll {
		locs = c.assignLocs(penv(fr.old), con)
	}

	if fn.Synthetic == "package initializer" && fn.Pkg != nil {
		// the runtime runs a package initializer exactly once: its guard variable is still false
		c.assumeAlways(not(c.H(st, "G:"+fn.Pkg.Pkg.Path()+".init$guard", "Bool")))
	}
	exits := c.execBody(fr, st, "true")

	returns := 0
	var retReaches []string
	for _, ex := range exits {
		c.curReach = ex.reach
		c.curFrame = ex.fr
		c.curGroup = ""
		c.curTopBlock = ex.topBlock
		c.curEdgeFrom = ex.edgeFrom
		switch ex.kind {
		case "return":
			if ex.fr != fr {
				continue
			}
			returns++
			if con == nil {
				continue
			}
			c.curGroup = fmt.Sprintf("%s#exit%d", name, returns)
			first := len(c.obls)
			env := penv(ex.st)
			env.cells = true // locals (final values) are visible to postconditions; parameters keep their entry values
			res := &Val{T: fn.Signature.Results()}
			if len(ex.results) == 1 {
				res = ex.results[0]
			} else {
				res.Fs = ex.results
			}
			c.bindResults(env, fn.Signature, res)
			for _, en := range con.Ensures {
				g := env.evalTop(en)
				c.oblige("post", fmt.Sprintf("%s#post[%s]", name, lbl(en)), en.Label, en.Props, g.Term, ex.site.Pos(), en.Src)
			}
			for _, pcl := range []*Clause{con.Panics, con.Exits} {
				if pcl == nil {
					continue
				}
				pe := penv(fr.old)
				g := pe.evalTop(pcl)
				c.oblige("post", fmt.Sprintf("%s#returns-only-if-not[%s]", name, lbl(pcl)), pcl.Label, pcl.Props, not(g.Term), ex.site.Pos(), "normal return implies !("+pcl.Src+")")
			}
			if con.NoReturn {
				c.oblige("post", name+"#noreturn", "", props, "false", ex.site.Pos(), "function declared noreturn returns")
			}
			c.checkInvariants(fr, ex, name, props)
			for _, k := range c.keptLeaves(con) {
				cur := c.H(ex.st, k.leaf, k.sort)
				init := c.H(fr.old, k.leaf, k.sort)
				if cur != init && !strings.HasPrefix(k.sort, "(Array") {
					c.oblige("frame", fmt.Sprintf("%s#keeps{%s}", name, k.leaf), "", props, eq(cur, init), ex.site.Pos(), "declared 'keeps': unchanged: "+k.leaf)
				} else if cur != init {
					c.nsym++
					rsk := c.fresh("sk_r", "Int")
					conds := []string{app("<=", "0", rsk), app("<", rsk, c.next(fr.old))}
					for _, e := range k.except {
						exx, err := parseExprCached(e)
						if err != nil {
							c.unsupported("keeps except %q", e)
							continue
						}
						v := env.evalTop(&Clause{Src: e, Expr: exx})
						conds = append(conds, or(eq(rsk, "0"), not(eq(rsk, v.Term))))
					}
					g := implies(and(conds...), eq(app("select", cur, rsk), app("select", init, rsk)))
					what := k.leaf
					if len(k.except) > 0 {
						what += " except " + strings.Join(k.except, ", ")
					}
					c.oblige("frame", fmt.Sprintf("%s#keeps{%s}", name, k.leaf), "", props, g, ex.site.Pos(), "declared 'keeps': unchanged for every object that existed at entry: "+what)
				}
			}
			if !con.AssignsAll {
				c.frameObligations(fr, ex, locs, name, props)
			} else if con.NoGhost {
				// protected components (ghost state, logger configuration, registry) must be unchanged
				var leafs []string
				for leaf := range c.compSorts {
					if protectedLeaf(leaf) {
						leafs = append(leafs, leaf)
					}
				}
				sort.Strings(leafs)
				for _, leaf := range leafs {
					srt := c.compSorts[leaf]
					cur := c.H(ex.st, leaf, srt)
					init := c.H(fr.old, leaf, srt)
					if cur != init {
						fprops := props
						if con.Auto && strings.HasPrefix(leaf, "G:") && !hasStr(fprops, "C09") {
							// a formatting function that writes a package-level variable makes later records depend on earlier ones
							fprops = append(append([]string{}, props...), "C09")
						}
						c.oblige("frame", fmt.Sprintf("%s#frame{%s}", name, leaf), "", fprops, eq(cur, init), ex.site.Pos(), "declared 'auto'/'noghost': protected component unchanged: "+leaf)
					}
				}
			}
			// one conjunction for the whole exit: tried first, members only when it fails
			if members := c.obls[first:]; len(members) > 3 {
				var gs []string
				for _, m := range members {
					if m.Reach != ex.reach || m.ExpectSat {
						gs = nil
						break
					}
					gs = append(gs, m.Goal)
				}
				if gs != nil {
					last := members[len(members)-1]
					head := &Obligation{Name: c.curGroup + "[all]", Func: last.Func, Kind: "group", Goal: and(gs...), Reach: ex.reach,
						NAsserts: len(c.asserts), NDecls: len(c.decls), Src: fmt.Sprintf("conjunction of the %d obligations of this exit", len(members)),
						Block: last.Block, EdgeFrom: last.EdgeFrom, Group: c.curGroup, GroupHead: true, Pos: last.Pos}
					c.obls = append(c.obls, head)
				} else {
					for _, m := range members {
						m.Group = ""
					}
				}
			} else {
				for _, m := range c.obls[first:] {
					m.Group = ""
				}
			}
			c.curGroup = ""
			if c.curReach != "false" {
				retReaches = append(retReaches, c.curReach)
			}
		case "panic":
			c.atAsserts(fr, ex, "panic")
			if con != nil && con.MayPanic {
				// unspecified
			} else if con != nil && con.Panics != nil {
				pe := penv(fr.old)
				g := pe.evalTop(con.Panics)
				c.oblige("safety", fmt.Sprintf("%s#panic-only-when[%s]", c.relName(ex.fr.fn), lbl(con.Panics)), con.Panics.Label, con.Panics.Props, g.Term, ex.site.Pos(), "panic reached only when "+con.Panics.Src)
			} else {
				c.oblige("safety", fmt.Sprintf("%s#safe{explicit panic}", c.relName(ex.fr.fn)), "", nil, "false", ex.site.Pos(), "panic statement unreachable")
			}
		case "exit":
			c.atAsserts(fr, ex, "exit")
			if con != nil && con.MayPanic {
				// unspecified
			} else if con != nil && con.Exits != nil {
				pe := penv(fr.old)
				g := pe.evalTop(con.Exits)
				c.oblige("safety", fmt.Sprintf("%s#exit-only-when[%s]", c.relName(ex.fr.fn), lbl(con.Exits)), con.Exits.Label, con.Exits.Props, g.Term, ex.site.Pos(), "process exit reached only when "+con.Exits.Src)
			} else {
				c.oblige("safety", fmt.Sprintf("%s#safe{process exit}", c.relName(ex.fr.fn)), "", nil, "false", ex.site.Pos(), "os.Exit unreachable")
			}
		}
	}
	c.curReach = "true"
	c.curTopBlock = -1
	c.curEdgeFrom = -1
	if con != nil && len(retReaches) > 0 && !con.NoReturn {
		// vacuity guard: the assumptions made while executing the body (quantifier-free part) leave at least
		// one normal return reachable; a contradiction among them would discharge every obligation. (Single
		// returns may be dead for good reasons - a defensive branch the callee's contract excludes.)
		c.curReach = or(retReaches...)
		c.oblige("cover", name+"#cover[returns]", "", props, "false", fn.Pos(), "some normal return is reachable under the assumptions made (quantifier-free part)")
		co := c.obls[len(c.obls)-1]
		co.ExpectSat, co.QFCover, co.Trivial, co.Group = true, true, false, ""
		c.curReach = "true"
	}
	_ = returns
	if con != nil {
		for _, a := range con.Asserts {
			if strings.HasPrefix(a.Where, "call ") && !c.atCallSeen[a] && a.Effect == nil && !a.Maybe {
				c.oblige("assert", fmt.Sprintf("%s#at-%s.reached[%s]", name, strings.ReplaceAll(a.Where, " ", "-"), lbl(a.Clause)), a.Clause.Label, a.Clause.Props, "false", fn.Pos(), "the call site named by the at-clause exists: "+a.Where)
			}
		}
	}
	return res
}

func (c *Ctx) hasAt(con *Contract, where string) bool {
	for _, a := range con.Asserts {
		if a.Where == where {
			return true
		}
	}
	return false
}

// atAsserts checks "at panic/exit assert e" clauses at an abnormal exit.
func (c *Ctx) atAsserts(fr *Frame, ex *exitInfo, where string) {
	if fr.con == nil {
		return
	}
	for _, a := range fr.con.Asserts {
		if a.Where != where {
			continue
		}
		extra := map[string]*Val{}
		if ex.val != nil {
			extra["value"] = ex.val
		}
		env := &Env{c: c, fr: fr, fn: fr.fn, st: ex.st, old: fr.old, vars: map[string]*Val{}, fd: fr.fd, cells: ex.fr == fr}
		for i, p := range fr.fn.Params {
			env.vars["old:"+p.Name()] = fr.params[i]
			if ex.fr != fr {
				env.vars[p.Name()] = fr.params[i]
			}
		}
		for k, v := range extra {
			env.vars[k] = v
		}
		g := env.evalTop(a.Clause)
		c.oblige("assert", fmt.Sprintf("%s#at-%s[%s]", c.relName(fr.fn), where, lbl(a.Clause)), a.Clause.Label, a.Clause.Props, g.Term, ex.site.Pos(), a.Clause.Src)
	}
}

// frameObligations: everything not listed in assigns is unchanged at a normal return.
func (c *Ctx) frameObligations(fr *Frame, ex *exitInfo, locs []loc, name string, props []string) {
	var leafs []string
	for k := range ex.st.heap {
		leafs = append(leafs, k)
	}
	sort.Strings(leafs)
	next0 := c.next(fr.old)
	for _, leaf := range leafs {
		if leaf == "$next" || scratchGhost(leaf) {
			continue
		}
		cur := ex.st.heap[leaf]
		init := sym(leaf + "@0")
		if cur == init {
			continue
		}
		srt, ok := c.compSorts[leaf]
		if !ok {
			continue
		}
		c.declare(init, srt)
		var mine []loc
		whole := false
		for _, l := range locs {
			if l.leaf == leaf {
				mine = append(mine, l)
				if l.dim == 0 || l.ref == "" {
					whole = true
				}
			}
		}
		if whole {
			continue
		}
		dim := 0
		if strings.HasPrefix(srt, "(Array Int (Array Int ") && strings.HasPrefix(leaf, "E:") {
			dim = 2
		} else if strings.HasPrefix(srt, "(Array Int ") {
			dim = 1
		}
		var goal string
		switch dim {
		case 0:
			goal = eq(cur, init)
		case 1:
			var ex []string
			for _, l := range mine {
				ex = append(ex, eq("r", l.ref))
			}
			goal = fmt.Sprintf("(forall ((r Int)) (=> (and (<= 0 r) (< r %s) (not %s)) (= (select %s r) (select %s r))))", next0, or(ex...), cur, init)
		case 2:
			// (a) arrays of other objects are untouched
			var exr []string
			for _, l := range mine {
				exr = append(exr, eq("r", l.ref))
			}
			c.nsym++
			rsk := c.fresh("sk_r", "Int")
			ga := implies(and(app("<=", "0", rsk), app("<", rsk, next0), not(strings.ReplaceAll(or(exr...), "r", rsk))), eq(app("select", cur, rsk), app("select", init, rsk)))
			if len(exr) == 0 {
				ga = implies(and(app("<=", "0", rsk), app("<", rsk, next0)), eq(app("select", cur, rsk), app("select", init, rsk)))
			} else {
				var exs []string
				for _, l := range mine {
					exs = append(exs, eq(rsk, l.ref))
				}
				ga = implies(and(app("<=", "0", rsk), app("<", rsk, next0), not(or(exs...))), eq(app("select", cur, rsk), app("select", init, rsk)))
			}
			c.oblige("frame", fmt.Sprintf("%s#frame{%s}.others", name, leaf), "", props, ga, ex.site.Pos(), "objects not listed in 'assigns' keep their elements: "+leaf)
			// (b) per listed object: indices outside the listed ranges are untouched
			seen := map[string]bool{}
			for _, l := range mine {
				if seen[l.ref] {
					continue
				}
				seen[l.ref] = true
				var rng []string
				wholeObj := false
				isk := c.fresh("sk_i", "Int")
				for _, m := range mine {
					if m.ref != l.ref {
						// another listed object may alias this one
						if m.lo == "" {
							rng = append(rng, eq(m.ref, l.ref))
						} else {
							rng = append(rng, and(eq(m.ref, l.ref), app("<=", m.lo, isk), app("<", isk, m.hi)))
						}
						continue
					}
					if m.lo == "" {
						wholeObj = true
					} else {
						rng = append(rng, and(app("<=", m.lo, isk), app("<", isk, m.hi)))
					}
				}
				if wholeObj {
					continue
				}
				gb := implies(and(app("<", l.ref, next0), not(or(rng...))), eq(app("select", app("select", cur, l.ref), isk), app("select", app("select", init, l.ref), isk)))
				c.oblige("frame", fmt.Sprintf("%s#frame{%s}.range", name, leaf), "", props, gb, ex.site.Pos(), "elements outside the ranges listed in 'assigns' are unchanged: "+leaf)
			}
			continue
		}
		c.oblige("frame", fmt.Sprintf("%s#frame{%s}", name, leaf), "", props, goal, ex.site.Pos(), "only the locations in 'assigns' change: "+leaf)
	}
}

// ---------- SMT emission & discharge ----------

func (r *FuncResult) SMT(o *Obligation, withModel bool) string { return r.SMTx(o, withModel, false) }

// SMTx: qf drops quantified assumptions (sound for proving: fewer assumptions).
func (r *FuncResult) SMTx(o *Obligation, withModel bool, qf bool) string {
	c := r.ctx
	var sb strings.Builder
	sb.WriteString("; obligation: " + o.Name + "\n; kind: " + o.Kind + "  pos: " + o.Pos + "\n; clause: " + strings.ReplaceAll(o.Src, "\n", " ") + "\n")
	sb.WriteString(prelude)
	for _, d := range c.decls[:o.NDecls] {
		sb.WriteString(d)
		sb.WriteByte('\n')
	}
	rel := r.relevantBlocks(o)
	for i, a := range c.asserts[:o.NAsserts] {
		if qf && (strings.Contains(a, "(forall ") || strings.Contains(a, "(exists ")) {
			continue
		}
		if rel != nil && i < len(c.assertTags) && c.assertTags[i] >= 0 && !rel[c.assertTags[i]] {
			continue // made while executing a block that cannot precede the obligation's block
		}
		sb.WriteString("(assert ")
		sb.WriteString(a)
		sb.WriteString(")\n")
	}
	if o.ExpectSat {
		if o.QFCover && o.Reach != "true" {
			sb.WriteString("(assert " + o.Reach + ")\n")
		}
		sb.WriteString("(check-sat)\n")
		return sb.String()
	}
	if o.Reach != "true" {
		sb.WriteString("(assert " + o.Reach + ")\n")
	}
	sb.WriteString("(assert (not " + o.Goal + "))\n(check-sat)\n")
	if withModel {
		var vals []string
		for _, in := range r.Inputs {
			vals = append(vals, in)
		}
		vals = append(vals, r.modelTerms(o)...)
		if len(vals) > 0 {
			sb.WriteString("(get-value (" + strings.Join(vals, " ") + "))\n")
		}
		sb.WriteString("(get-model)\n")
	}
	return sb.String()
}

// groupWanted: the head of a group is run when any of its members is wanted.
func groupWanted(results []*FuncResult, head *Obligation, want func(*Obligation) bool) bool {
	if want == nil {
		return true
	}
	for _, r := range results {
		for _, o := range r.Obligations {
			if !o.GroupHead && o.Group == head.Group && want(o) {
				return true
			}
		}
	}
	return false
}

type DischargeOpts struct {
	noGroups  bool
	onlyHeads bool
	Tier      string
	TimeoutS  int
	Short     func(o *Obligation) bool // obligations listed as known findings: a short timeout is enough
	WorkDir   string
	Workers   int
	Keep      bool
}

func safeFile(s string) string {
	s = strings.Map(func(r rune) rune {
		if r >= 'a' && r <= 'z' || r >= 'A' && r <= 'Z' || r >= '0' && r <= '9' || r == '.' || r == '-' || r == '_' {
			return r
		}
		return '_'
	}, s)
	if len(s) > 150 {
		s = s[:150]
	}
	return s
}

// DischargeAll runs the solvers on every non-trivial obligation of the given results.
func DischargeAll(results []*FuncResult, want func(*Obligation) bool, opt DischargeOpts) {
	type job struct {
		r *FuncResult
		o *Obligation
		i int
	}
	var jobs []job
	n := 0
	// phase 1: group heads (one conjunction per function exit); members of a discharged group are done
	if !opt.noGroups {
		var heads []*FuncResult
		headWant := func(o *Obligation) bool {
			if !o.GroupHead {
				return false
			}
			return true
		}
		_ = heads
		sub := opt
		sub.noGroups = true
		sub.onlyHeads = true
		// a group with a member that is a known finding cannot be discharged as a whole: go to the members
		hasShort := func(head *Obligation) bool {
			if opt.Short == nil {
				return false
			}
			for _, r := range results {
				for _, o := range r.Obligations {
					if !o.GroupHead && o.Group == head.Group && opt.Short(o) {
						return true
					}
				}
			}
			return false
		}
		DischargeAll(results, func(o *Obligation) bool { return headWant(o) && groupWanted(results, o, want) && !hasShort(o) }, sub)
		okGroup := map[string]bool{}
		for _, r := range results {
			for _, o := range r.Obligations {
				if o.GroupHead && o.Result != nil && o.Result.Status == "unsat" {
					okGroup[o.Group] = true
				}
			}
		}
		for _, r := range results {
			for _, o := range r.Obligations {
				if !o.GroupHead && o.Group != "" && okGroup[o.Group] && o.Result == nil && !o.Decided {
					hr := SolverResult{Status: "unsat", Solver: "group"}
					o.Result = &hr
					o.Decided = true
				}
			}
		}
	}
	for _, r := range results {
		for _, o := range r.Obligations {
			if o.GroupHead && !opt.onlyHeads {
				continue
			}
			if want != nil && !want(o) {
				continue
			}
			if o.Decided {
				continue
			}
			if o.Trivial && !o.ExpectSat {
				st := "unsat"
				o.Result = &SolverResult{Status: st, Solver: "syntactic"}
				continue
			}
			n++
			jobs = append(jobs, job{r, o, n})
		}
	}
	if opt.Workers <= 0 {
		opt.Workers = 16
	}
	process := func(jobs []job, workers int, opt DischargeOpts) {
		var wg sync.WaitGroup
		ch := make(chan job)
		for w := 0; w < workers; w++ {
			wg.Add(1)
			go func() {
				defer wg.Done()
				for j := range ch {
					opt := opt
					if opt.Short != nil && opt.Short(j.o) && opt.TimeoutS > 5 {
						opt.TimeoutS = 5
					}
					fname := fmt.Sprintf("%04d_%s.smt2", j.i, safeFile(j.o.Name))
					path := filepath.Join(opt.WorkDir, fname)
					_ = os.MkdirAll(opt.WorkDir, 0o755)
					// stage A: without quantified assumptions (decidable fragment, fast, models are meaningful)
					qfText := j.r.SMTx(j.o, false, true)
					fullText := j.r.SMT(j.o, false)
					if j.o.QFCover {
						fullText = qfText
					}
					var best SolverResult
					var qfRes *SolverResult
					usedQF := false
					if qfText != fullText && !j.o.ExpectSat {
						qp := strings.TrimSuffix(path, ".smt2") + ".qf.smt2"
						_ = os.WriteFile(qp, []byte(qfText), 0o644)
						a, _ := Discharge(qp, "quick", opt.TimeoutS)
						if a.Status == "unsat" && opt.Tier != "thorough" {
							best = a
							best.Solver += "(qf)"
							usedQF = true
						} else {
							qfRes = &a
						}
						if !opt.Keep {
							os.Remove(qp)
						}
					}
					if !usedQF {
						_ = os.WriteFile(path, []byte(fullText), 0o644)
						best, _ = Discharge(path, opt.Tier, opt.TimeoutS)
					}
					if j.o.ExpectSat && !j.o.QFCover && best.Status != "sat" && best.Status != "unsat" && qfText != fullText {
						// a satisfiability check that the quantified assumptions left undecided (instantiation
						// may diverge, and now and then does under load): decide it on the quantifier-free part -
						// a contradiction among the assumptions made explicitly still shows up as unsat
						qp := strings.TrimSuffix(path, ".smt2") + ".qf.smt2"
						_ = os.WriteFile(qp, []byte(qfText), 0o644)
						a, _ := Discharge(qp, "quick", opt.TimeoutS)
						if a.Status == "sat" || a.Status == "unsat" {
							best = a
							best.Solver += "(qf)"
						}
						if !opt.Keep {
							os.Remove(qp)
						}
					}
					j.o.Result = &best
					j.o.SMTFile = path
					failed := (best.Status != "unsat" && !j.o.ExpectSat) || (j.o.ExpectSat && best.Status == "unsat")
					if failed && best.Status != "sat" && qfRes != nil && qfRes.Status == "sat" {
						// candidate counterexample from the quantifier-free relaxation
						mp := strings.TrimSuffix(path, ".smt2") + ".qfmodel.smt2"
						_ = os.WriteFile(mp, []byte(j.r.SMTx(j.o, true, true)), 0o644)
						for _, sp := range solvers {
							if sp.name == qfRes.Solver {
								m := runSolver(bgctx(), sp, mp, opt.TimeoutS)
								j.o.Result.Output = "status " + best.Status + " with all assumptions; candidate model from the quantifier-free relaxation:\n" + m.Output
								j.o.CandidateModel = true
							}
						}
						if !opt.Keep {
							os.Remove(mp)
						}
					}
					if failed && best.Status == "sat" {
						// rerun for a model
						mp := strings.TrimSuffix(path, ".smt2") + ".model.smt2"
						_ = os.WriteFile(mp, []byte(j.r.SMT(j.o, true)), 0o644)
						for _, sp := range solvers {
							if sp.name == best.Solver {
								m := runSolver(bgctx(), sp, mp, opt.TimeoutS)
								j.o.Result.Output = m.Output
							}
						}
						if !opt.Keep {
							os.Remove(mp)
						}
					}
					if !failed && !opt.Keep {
						os.Remove(path)
					}
				}
			}()
		}
		for _, j := range jobs {
			ch <- j
		}
		close(ch)
		wg.Wait()
	}
	process(jobs, opt.Workers, opt)
	// second chance for obligations no solver decided (time-out or "unknown", typically on a loaded machine):
	// once more, a few at a time, with twice the time. Obligations a solver refuted are not retried.
	if !opt.onlyHeads {
		var again []job
		for _, j := range jobs {
			if j.o.Result == nil || (opt.Short != nil && opt.Short(j.o)) {
				continue
			}
			if st := j.o.Result.Status; st != "sat" && st != "unsat" {
				again = append(again, j)
			}
		}
		if len(again) > 0 && len(again) <= 12 {
			o2 := opt
			o2.TimeoutS = opt.TimeoutS * 2
			solverSeed = 7
			process(again, 4, o2)
			solverSeed = 0
			for _, j := range again {
				if j.o.Result != nil {
					j.o.Result.Solver += " (2nd attempt)"
				}
			}
		}
	}
}

// Failed reports whether obligation o is not established.
func (o *Obligation) Failed() bool {
	if o.Result == nil {
		return true
	}
	if o.ExpectSat {
		// a vacuity guard fails when the assumptions are shown contradictory; a satisfiability question no
		// solver decided (after the second attempt and the quantifier-free fallback) proves nothing about
		// the code and is reported as undecided, not as a violation
		return o.Result.Status == "unsat"
	}
	return o.Result.Status != "unsat"
}

// Undecided reports a vacuity guard that no solver decided.
func (o *Obligation) Undecided() bool {
	return o.ExpectSat && o.Result != nil && o.Result.Status != "sat" && o.Result.Status != "unsat"
}

// modelTerms: extra terms whose model values make a counterexample readable and replayable:
// scalar fields of the structs the pointer parameters point to, scalar globals and ghost variables
// (all in the pre-state).
func (r *FuncResult) modelTerms(o *Obligation) []string {
	c := r.ctx
	declared := map[string]bool{}
	for _, d := range c.decls[:o.NDecls] {
		f := strings.Fields(d)
		if len(f) > 1 {
			declared[f[1]] = true
		}
	}
	var out []string
	var leafs []string
	for leaf := range c.compSorts {
		leafs = append(leafs, leaf)
	}
	sort.Strings(leafs)
	top := c.topFrame
	for _, leaf := range leafs {
		srt := c.compSorts[leaf]
		name := sym(leaf + "@0")
		if !declared[name] {
			continue
		}
		switch {
		case srt == "Int" || srt == "Bool":
			out = append(out, name)
		case srt == "(Array Int Int)" || srt == "(Array Int Bool)":
			if top == nil {
				continue
			}
			for i, p := range top.fn.Params {
				pt, ok := p.Type().Underlying().(*types.Pointer)
				if !ok || i >= len(top.params) || top.params[i].Term == "" {
					continue
				}
				if strings.HasPrefix(leaf, "F:"+typeName(pt.Elem())+".") {
					out = append(out, app("select", name, top.params[i].Term))
				}
			}
		case srt == "(Array Int (Array Int Int))" || srt == "(Array Int (Array Int Bool))":
			if top == nil {
				continue
			}
			for i, p := range top.fn.Params {
				sl, ok := p.Type().Underlying().(*types.Slice)
				if !ok || i >= len(top.params) || top.params[i].Term == "" {
					continue
				}
				if leaf == "E:"+typeName(sl.Elem()) {
					pt := top.params[i].Term
					for k := 0; k < 8; k++ {
						out = append(out, app("select", app("select", name, app("lref", pt)), app("+", app("loff", pt), num(int64(k)))))
					}
				}
			}
		}
	}
	return out
}

// assumeInvariants assumes every package invariant in state st; returns the evaluated terms.
func (c *Ctx) assumeInvariants(st *State) []string {
	var out []string
	if c.inInv {
		return nil
	}
	if c.fn != nil && c.fn.Synthetic == "package initializer" {
		// the package initializer establishes the invariants: nothing is assumed while it runs
		return nil
	}
	c.inInv = true
	defer func() { c.inInv = false }()
	for _, inv := range c.prog.Invariants {
		env := &Env{c: c, fr: c.topFrame, fn: c.fn, st: st, old: st, vars: map[string]*Val{}, fd: "0"}
		if c.topFrame != nil {
			env.fd = c.topFrame.fd
		}
		env.fr = nil
		g := env.evalTop(inv)
		c.assume(g.Term)
		out = append(out, g.Term)
	}
	return out
}

// checkInvariants: every package invariant holds again when the function returns.
func (c *Ctx) checkInvariants(fr *Frame, ex *exitInfo, name string, props []string) {
	if !c.prog.inRoot(c.fn) {
		return
	}
	for i, inv := range c.prog.Invariants {
		if fr.con != nil && hasStr(fr.con.SkipInv, inv.Label) {
			continue
		}
		env := &Env{c: c, fn: c.fn, st: ex.st, old: ex.st, vars: map[string]*Val{}, fd: fr.fd}
		g := env.evalTop(inv)
		if i < len(c.invEntry) && g.Term == c.invEntry[i] {
			continue // nothing it depends on changed
		}
		ps := inv.Props
		if len(ps) == 0 {
			ps = props
		}
		c.oblige("invariant", fmt.Sprintf("%s#invariant[%s]", name, lbl(inv)), inv.Label, ps, g.Term, ex.site.Pos(), "package invariant preserved: "+inv.Src)
	}
}

// relevantBlocks: the top-level blocks that can execute before obligation o's block (CFG ancestors,
// plus the block itself). Assertions made in other blocks only constrain symbols of other paths.
func (r *FuncResult) relevantBlocks(o *Obligation) map[int]bool {
	fn := r.ctx.fn
	if o.Block < 0 || o.Block >= len(fn.Blocks) {
		return nil
	}
	rel := map[int]bool{o.Block: true}
	var work []*ssa.BasicBlock
	start := fn.Blocks[o.Block]
	if o.EdgeFrom >= 0 && o.EdgeFrom < len(fn.Blocks) {
		// executed for one incoming edge only: other predecessors are irrelevant
		rel[o.EdgeFrom] = true
		work = append(work, fn.Blocks[o.EdgeFrom])
	} else {
		work = append(work, start)
	}
	for len(work) > 0 {
		b := work[len(work)-1]
		work = work[:len(work)-1]
		for _, p := range b.Preds {
			if !rel[p.Index] {
				rel[p.Index] = true
				work = append(work, p)
			}
		}
	}
	return rel
}
