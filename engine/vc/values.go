package vc

import (
	"fmt"
	"go/types"
	"math/big"
	"strings"

	"golang.org/x/tools/go/ssa"
)

type bigInt = big.Int

// ---------- maps ----------

func keyTerm(c *Ctx, k *Val) string {
	if sortOf(k.T) == "Str" {
		return app("strid", k.Term)
	}
	if sortOf(k.T) == "Bool" {
		return ite(k.Term, "1", "0")
	}
	return k.Term
}

func keySort(t types.Type) string {
	s := sortOf(t)
	switch s {
	case "Str", "Bool", "Int":
		return "Int"
	}
	return s
}

// mapComps: names and sorts of the three components of a map type.
func (c *Ctx) mapComps(mt *types.Map) (has, val, ks, vs string) {
	base := "M:" + typeName(mt)
	ks = keySort(mt.Key())
	vs = sortOf(mt.Elem())
	if ks == "" || vs == "" {
		c.unsupported("map with composite key/value: %s", shortTypeName(mt))
		if ks == "" {
			ks = "Int"
		}
		if vs == "" {
			vs = "Int"
		}
	}
	c.noteLeafType(base+".val", mt.Elem())
	return base + ".has", base + ".val", ks, vs
}

// mapLeaves: the heap components (name, sort) that hold the contents of every map of type mt.
func (c *Ctx) mapLeaves(mt *types.Map) [][2]string {
	has, val, ks, vs := c.mapComps(mt)
	return [][2]string{
		{has, "(Array Int (Array " + ks + " Bool))"},
		{val, "(Array Int (Array " + ks + " " + vs + "))"},
		{"M:" + typeName(mt) + ".len", "(Array Int Int)"},
	}
}

func (c *Ctx) mapHas(st *State, mt *types.Map, ref, key string) string {
	has, _, ks, _ := c.mapComps(mt)
	h := c.H(st, has, "(Array Int (Array "+ks+" Bool))")
	return app("select", app("select", h, ref), key)
}

func (c *Ctx) mapVal(st *State, mt *types.Map, ref, key string) string {
	_, val, ks, vs := c.mapComps(mt)
	h := c.H(st, val, "(Array Int (Array "+ks+" "+vs+"))")
	return app("select", app("select", h, ref), key)
}

func (c *Ctx) setComp(st *State, leaf, sort, term string) {
	if c.dry > 0 && c.wr != nil {
		c.wr.addComp(leaf+"\x00"+sort, "")
	}
	c.nsym++
	name := sym(fmt.Sprintf("%s@%d", leaf, c.nsym))
	c.declare(name, sort)
	c.assumeAlways(eq(name, term))
	st.heap[leaf] = name
}

func (c *Ctx) setCompAt(st *State, leaf, sort, ref, inner string) {
	h := c.H(st, leaf, sort)
	if c.dry > 0 && c.wr != nil {
		c.wr.addComp(leaf+"\x00"+sort, ref)
	}
	c.nsym++
	name := sym(fmt.Sprintf("%s@%d", leaf, c.nsym))
	c.declare(name, sort)
	c.assumeAlways(eq(name, app("store", h, ref, inner)))
	st.heap[leaf] = name
}

func (c *Ctx) setMapEmpty(st *State, mt *types.Map, ref string) {
	has, _, ks, _ := c.mapComps(mt)
	c.setCompAt(st, has, "(Array Int (Array "+ks+" Bool))", ref, "((as const (Array "+ks+" Bool)) false)")
	c.setCompAt(st, "M:"+typeName(mt)+".len", "(Array Int Int)", ref, "0")
}

func (c *Ctx) mapLen(st *State, mt *types.Map, ref string) string {
	h := c.H(st, "M:"+typeName(mt)+".len", "(Array Int Int)")
	t := app("select", h, ref)
	c.assumeAlways(app(">=", t, "0"))
	return t
}

func (c *Ctx) execLookup(fr *Frame, st *State, x *ssa.Lookup) {
	m := c.val(fr, st, x.X)
	k := c.val(fr, st, x.Index)
	mt, ok := x.X.Type().Underlying().(*types.Map)
	if !ok { // string index
		c.safety(fr, exprText(fr, x)+"#idx", x, and(app("<=", "0", k.Term), app("<", k.Term, app("slen", m.Term))))
		c.set(fr, x, c.strAt(m.Term, k.Term))
		return
	}
	key := keyTerm(c, k)
	has := c.mapHas(st, mt, m.Term, key)
	has = and(not(eq(m.Term, "0")), has)
	var v *Val
	if sortOf(mt.Elem()) == "" {
		c.unsupported("map with composite values")
		v = c.freshVal(mt.Elem(), "mv")
	} else {
		v = c.wf(&Val{T: mt.Elem(), Term: ite(has, c.mapVal(st, mt, m.Term, key), zeroTerm(mt.Elem()))})
		c.wfRefs(st, v)
	}
	if x.CommaOk {
		c.set(fr, x, &Val{T: x.Type(), Fs: []*Val{v, boolVal(c.define("ok", "Bool", has))}})
	} else {
		c.set(fr, x, v)
	}
}

func (c *Ctx) execMapUpdate(fr *Frame, st *State, x *ssa.MapUpdate) {
	m := c.val(fr, st, x.Map)
	k := c.val(fr, st, x.Key)
	v := c.val(fr, st, x.Value)
	mt := x.Map.Type().Underlying().(*types.Map)
	c.safety(fr, "nil-map-write "+exprText(fr, x), x, not(eq(m.Term, "0")))
	c.mapStore(st, mt, m.Term, keyTerm(c, k), v)
}

func (c *Ctx) mapStore(st *State, mt *types.Map, ref, key string, v *Val) {
	has, val, ks, vs := c.mapComps(mt)
	hs := "(Array Int (Array " + ks + " Bool))"
	vsrt := "(Array Int (Array " + ks + " " + vs + "))"
	hh := c.H(st, has, hs)
	hv := c.H(st, val, vsrt)
	was := app("select", app("select", hh, ref), key)
	ln := c.mapLen(st, mt, ref)
	c.setCompAt(st, "M:"+typeName(mt)+".len", "(Array Int Int)", ref, ite(was, ln, app("+", ln, "1")))
	c.setCompAt(st, has, hs, ref, app("store", app("select", hh, ref), key, "true"))
	if v.Term != "" {
		c.setCompAt(st, val, vsrt, ref, app("store", app("select", hv, ref), key, v.Term))
	} else {
		c.unsupported("map store of composite value")
	}
}

func (c *Ctx) mapDelete(st *State, mt *types.Map, ref, key string) {
	has, _, ks, _ := c.mapComps(mt)
	hs := "(Array Int (Array " + ks + " Bool))"
	hh := c.H(st, has, hs)
	was := app("select", app("select", hh, ref), key)
	ln := c.mapLen(st, mt, ref)
	c.setCompAt(st, "M:"+typeName(mt)+".len", "(Array Int Int)", ref, ite(was, app("-", ln, "1"), ln))
	c.setCompAt(st, has, hs, ref, app("store", app("select", hh, ref), key, "false"))
}

// ---------- interfaces ----------

func (c *Ctx) tagOf(t types.Type) string {
	id := c.prog.typeTag(t)
	k := typeName(t)
	if !c.seenTypes[k] {
		c.seenTypes[k] = true
		c.seenTypeList = append(c.seenTypeList, t)
		for _, it := range c.seenIfaceList {
			c.implFact(t, it)
		}
	}
	return num(int64(id))
}

func (c *Ctx) implFn(it types.Type) string {
	k := typeName(it)
	fn := sym("impl." + k)
	if !c.seenIfaces[k] {
		c.seenIfaces[k] = true
		c.seenIfaceList = append(c.seenIfaceList, it)
		c.declareFun(fn, []string{"Int"}, "Bool")
		func() {
			defer func(q, b int) { c.quant, c.curTopBlock = q, b }(c.quant, c.curTopBlock)
			c.quant = 0
			c.curTopBlock = -1
			c.assumeAlways(not(app(fn, "0")))
		}()
		for _, t := range c.seenTypeList {
			c.implFact(t, it)
		}
	}
	return fn
}

func (c *Ctx) implFact(t, it types.Type) {
	iface, ok := it.Underlying().(*types.Interface)
	if !ok {
		return
	}
	// closed facts: must be recorded even when first needed under a quantifier
	defer func(q, b int) { c.quant, c.curTopBlock = q, b }(c.quant, c.curTopBlock)
	c.quant = 0
	c.curTopBlock = -1 // a closed, global fact: relevant to every obligation
	fn := sym("impl." + typeName(it))
	tag := num(int64(c.prog.typeTag(t)))
	if types.Implements(t, iface) {
		c.assumeAlways(app(fn, tag))
	} else {
		c.assumeAlways(not(app(fn, tag)))
	}
}

func (c *Ctx) makeIface(st *State, v *Val, srcT, ifaceT types.Type) *Val {
	if _, isIface := srcT.Underlying().(*types.Interface); isIface {
		nv := *v
		nv.T = ifaceT
		return &nv
	}
	tag := c.tagOf(srcT)
	payload := c.box(v, srcT)
	return &Val{T: ifaceT, Term: c.define("if", "Iface", app("mkIface", tag, payload))}
}

// box: payload integer of a non-pointer dynamic value. Boxing is a deterministic, injective
// function of the value (unbox(box(v)) == v), so that interface equality is equality of (tag, payload).
func (c *Ctx) box(v *Val, t types.Type) string {
	s := sortOf(t)
	switch s {
	case "Int":
		if v.Term == "" {
			c.unsupported("interior pointer stored in interface")
			return c.fresh("box", "Int")
		}
		return v.Term
	case "Bool":
		return ite(v.Term, "1", "0")
	}
	var terms, sorts, names []string
	c.collectLeaves(t, v, typeName(t), &terms, &sorts, &names)
	if len(terms) == 0 {
		return "0" // empty struct
	}
	bf := sym("box." + typeName(t))
	c.declareFun(bf, sorts, "Int")
	b := c.define("box", "Int", app(bf, terms...))
	for i := range terms {
		fn := sym("unbox." + names[i])
		c.declareFun(fn, []string{"Int"}, sorts[i])
		c.assumeAlways(eq(app(fn, b), terms[i]))
	}
	return b
}

func (c *Ctx) collectLeaves(t types.Type, v *Val, name string, terms, sorts, names *[]string) {
	if stt, ok := t.Underlying().(*types.Struct); ok {
		for i := 0; i < stt.NumFields(); i++ {
			if v.Fs != nil && i < len(v.Fs) {
				c.collectLeaves(stt.Field(i).Type(), v.Fs[i], name+"."+stt.Field(i).Name(), terms, sorts, names)
			}
		}
		return
	}
	s := sortOf(t)
	if s == "" || v.Term == "" {
		return
	}
	*terms = append(*terms, v.Term)
	*sorts = append(*sorts, s)
	*names = append(*names, name)
}

func (c *Ctx) unbox(st *State, payload string, t types.Type) *Val {
	s := sortOf(t)
	switch s {
	case "Int":
		v := c.wf(&Val{T: t, Term: payload})
		if st != nil {
			c.wfRefs(st, v)
		}
		return v
	case "Bool":
		return &Val{T: t, Term: eq(payload, "1")}
	}
	if s != "" {
		fn := sym("unbox." + typeName(t))
		c.declareFun(fn, []string{"Int"}, s)
		v := c.wf(&Val{T: t, Term: app(fn, payload)})
		if st != nil {
			c.wfRefs(st, v)
		}
		return v
	}
	return c.unboxLeaves(st, payload, t, typeName(t))
}

func (c *Ctx) unboxLeaves(st *State, b string, t types.Type, name string) *Val {
	if stt, ok := t.Underlying().(*types.Struct); ok {
		v := &Val{T: t}
		for i := 0; i < stt.NumFields(); i++ {
			v.Fs = append(v.Fs, c.unboxLeaves(st, b, stt.Field(i).Type(), name+"."+stt.Field(i).Name()))
		}
		return v
	}
	s := sortOf(t)
	if s == "" {
		return c.freshVal(t, "unbox")
	}
	fn := sym("unbox." + name)
	c.declareFun(fn, []string{"Int"}, s)
	v := c.wf(&Val{T: t, Term: app(fn, b)})
	if st != nil {
		c.wfRefs(st, v)
	}
	return v
}

// typeIs: the dynamic type of iface value v is (or implements) t.
func (c *Ctx) typeIs(v *Val, t types.Type) string {
	if _, ok := t.Underlying().(*types.Interface); ok {
		if it := t.Underlying().(*types.Interface); it.NumMethods() == 0 {
			return not(eq(app("itag", v.Term), "0"))
		}
		return app(c.implFn(t), app("itag", v.Term))
	}
	return eq(app("itag", v.Term), c.tagOf(t))
}

func (c *Ctx) execTypeAssert(fr *Frame, st *State, x *ssa.TypeAssert) {
	v := c.val(fr, st, x.X)
	ok := c.define("taok", "Bool", c.typeIs(v, x.AssertedType))
	var res *Val
	if _, isIface := x.AssertedType.Underlying().(*types.Interface); isIface {
		res = &Val{T: x.AssertedType, Term: v.Term}
	} else {
		res = c.unbox(st, app("ival", v.Term), x.AssertedType)
		if res.Term != "" {
			switch x.AssertedType.Underlying().(type) {
			case *types.Pointer, *types.Map:
				c.assumeAlways(implies(ok, app("<", res.Term, c.next(st))))
			}
		}
		if c.prog.NonNilDyn[typeName(x.AssertedType)] && res.Term != "" {
			c.assumed["typed nil "+typeName(x.AssertedType)+" never occurs inside an interface value (its own methods would panic)"] = true
			c.assumeAlways(implies(ok, not(eq(res.Term, "0"))))
		}
	}
	if x.CommaOk {
		// on failure the value is the zero value
		if res.Term != "" {
			z := zeroTerm(x.AssertedType)
			if z != "" {
				res = &Val{T: res.T, Term: c.define("tav", sortOf(res.T), ite(ok, res.Term, z))}
			}
		}
		c.set(fr, x, &Val{T: x.Type(), Fs: []*Val{res, boolVal(ok)}})
		return
	}
	c.safety(fr, "type-assert "+shortTypeName(x.AssertedType)+" "+exprText(fr, x), x, ok)
	c.assume(ok)
	c.set(fr, x, res)
}

// ---------- conversions ----------

func (c *Ctx) convert(fr *Frame, st *State, v *Val, to types.Type, site ssa.Instruction) *Val {
	from := v.T
	fs, ts := sortOf(from), sortOf(to)
	switch {
	case fs == "Int" && ts == "Int":
		if _, isPtr := to.Underlying().(*types.Pointer); isPtr {
			nv := *v
			nv.T = to
			return &nv
		}
		lo, hi, ok := intRange(to)
		if !ok {
			nv := *v
			nv.T = to
			return &nv
		}
		flo, fhi, fok := intRange(from)
		if fok && cmpNum(flo, lo) >= 0 && cmpNum(fhi, hi) <= 0 {
			return &Val{T: to, Term: v.Term}
		}
		return c.wrap(to, v.Term)
	case fs == "Str" && ts == "Slice" && !isRuneSlice(to): // []byte(s)
		et := to.Underlying().(*types.Slice).Elem()
		if b, ok := et.Underlying().(*types.Basic); !ok || b.Kind() != types.Uint8 {
			c.unsupported("conversion string -> %s", shortTypeName(to))
			return c.freshVal(to, "conv")
		}
		ref := c.allocRef(st, "bytes")
		ln := app("slen", v.Term)
		arr := c.fresh("arr", "(Array Int Int)")
		c.assumeAlways(fmt.Sprintf("(forall ((i Int)) (! (=> (and (<= 0 i) (< i %s)) (= (select %s i) (strbyte (sref %s) (+ (soff %s) i)))) :pattern ((select %s i))))", ln, arr, v.Term, v.Term, arr))
		c.assumeAlways(fmt.Sprintf("(forall ((i Int)) (! (and (<= 0 (select %s i)) (<= (select %s i) 255)) :pattern ((select %s i))))", arr, arr, arr))
		p := &Ptr{Comp: "E:" + typeName(et), Dim: 2, Ref: ref, T0: et, Elem: et}
		c.storeLeaf(st, p, nil, arr)
		c.declareFun("bytesid", []string{"(Array Int Int)", "Int", "Int"}, "Int")
		c.assumeAlways(eq(app("bytesid", arr, "0", ln), app("strid", v.Term)))
		return &Val{T: to, Term: c.define("sl", "Slice", app("mkSlice", ref, "0", ln, ln))}
	case fs == "Slice" && ts == "Str" && !isRuneSlice(from): // string(b)
		et := from.Underlying().(*types.Slice).Elem()
		if b, ok := et.Underlying().(*types.Basic); !ok || b.Kind() != types.Uint8 {
			c.unsupported("conversion %s -> string", shortTypeName(from))
			return c.freshVal(to, "conv")
		}
		ref := c.fresh("strref", "Int")
		c.assumeAlways(app("<", ref, "(- 1000000)"))
		ln := app("llen", v.Term)
		p := &Ptr{Comp: "E:" + typeName(et), Dim: 2, Ref: app("lref", v.Term), T0: et, Elem: et}
		cur, _ := c.loadLeaf(st, p, nil)
		curN := c.define("cur", "(Array Int Int)", cur)
		c.assumeAlways(fmt.Sprintf("(forall ((i Int)) (! (=> (and (<= 0 i) (< i %s)) (= (strbyte %s i) (select %s (+ (loff %s) i)))) :pattern ((strbyte %s i))))", ln, ref, curN, v.Term, ref))
		c.declareFun("bytesid", []string{"(Array Int Int)", "Int", "Int"}, "Int")
		res := c.define("s", "Str", app("mkStr", ref, "0", ln))
		c.assumeAlways(eq(app("strid", res), app("bytesid", curN, app("loff", v.Term), ln)))
		return &Val{T: to, Term: res}
	case fs == "Str" && ts == "Slice" && isRuneSlice(to): // []rune(s): fresh slice, one rune per 1..4 bytes
		ref := c.allocRef(st, "runes")
		n := c.fresh("nrunes", "Int")
		c.assumeAlways(and(app("<=", "0", n), app("<=", n, app("slen", v.Term)), implies(app(">", app("slen", v.Term), "0"), app(">", n, "0"))))
		et := to.Underlying().(*types.Slice).Elem()
		p := &Ptr{Comp: "E:" + typeName(et), Dim: 2, Ref: ref, T0: et, Elem: et}
		c.storeLeaf(st, p, nil, c.fresh("runearr", "(Array Int Int)"))
		return &Val{T: to, Term: c.define("sl", "Slice", app("mkSlice", ref, "0", n, n))}
	case fs == "Slice" && ts == "Str" && isRuneSlice(from): // string([]rune): fresh string of 0..4 bytes per rune
		ref := c.fresh("strref", "Int")
		c.assumeAlways(app("<", ref, "(- 1000000)"))
		n := c.fresh("nbytes", "Int")
		c.assumeAlways(and(app("<=", app("llen", v.Term), n), app("<=", n, app("*", "4", app("llen", v.Term)))))
		return &Val{T: to, Term: c.define("s", "Str", app("mkStr", ref, "0", n))}
	case fs == "Int" && ts == "Str": // string(rune)
		return c.uninterp("runeToString", to, v)
	case (fs == "Int" || fs == "F64") && (ts == "F64" || ts == "Int"):
		r := c.uninterp("cvt."+shortTypeName(from)+"."+shortTypeName(to), to, v)
		return r
	case fs == ts && fs != "":
		nv := *v
		nv.T = to
		return &nv
	case fs == "" && ts == "" && v.Fs != nil:
		nv := *v
		nv.T = to
		return &nv
	}
	c.unsupported("conversion %s -> %s", shortTypeName(from), shortTypeName(to))
	return c.freshVal(to, "conv")
}

func cmpNum(a, b string) int {
	x, y := parseNumeral(a), parseNumeral(b)
	if x == nil || y == nil {
		return 0
	}
	return x.Cmp(y)
}

// ---------- range over map / string ----------

func (c *Ctx) execRange(fr *Frame, st *State, x *ssa.Range) {
	v := c.val(fr, st, x.X)
	k := regKey{frame: fr.id, extra: "$range_" + x.Name()}
	st.regs[k] = intVal("0")
	if c.dry > 0 && c.wr != nil {
		c.wr.regs[k] = true
	}
	c.set(fr, x, &Val{T: x.Type(), Term: "0", Fs: []*Val{v}})
}

func (c *Ctx) execNext(fr *Frame, st *State, x *ssa.Next) {
	it := c.val(fr, st, x.Iter)
	rng, _ := x.Iter.(*ssa.Range)
	tt := x.Type().(*types.Tuple)
	if rng == nil || it.Fs == nil {
		c.unsupported("Next on unknown iterator")
		c.set(fr, x, c.freshVal(x.Type(), "next"))
		return
	}
	coll := it.Fs[0]
	k := regKey{frame: fr.id, extra: "$range_" + rng.Name()}
	if c.dry > 0 && c.wr != nil {
		c.wr.regs[k] = true
	}
	pos := st.regs[k]
	if pos == nil {
		pos = intVal(c.fresh("pos", "Int"))
	}
	if x.IsString {
		s := coll.Term
		ok := app("<", pos.Term, app("slen", s))
		c.assumeAlways(app("<=", "0", pos.Term))
		w := c.fresh("rw", "Int")
		c.assumeAlways(and(app("<=", "1", w), app("<=", w, "4"), implies(ok, app("<=", app("+", pos.Term, w), app("slen", s)))))
		b0 := c.strAt(s, pos.Term).Term
		r := c.fresh("rune", "Int")
		c.assumeAlways(and(app("<=", "0", r), app("<=", r, "1114111")))
		c.assumeAlways(implies(and(ok, app("<", b0, "128")), and(eq(r, b0), eq(w, "1"))))
		c.assumeAlways(implies(and(ok, app(">=", b0, "128")), app(">=", r, "128")))
		st.regs[k] = intVal(c.defineInt("pos", ite(ok, app("+", pos.Term, w), pos.Term)))
		c.set(fr, x, &Val{T: x.Type(), Fs: []*Val{boolVal(ok), {T: tt.At(1).Type(), Term: pos.Term}, {T: tt.At(2).Type(), Term: r}}})
		return
	}
	mt, isMap := rng.X.Type().Underlying().(*types.Map)
	if !isMap {
		c.unsupported("range over %s", shortTypeName(rng.X.Type()))
		c.set(fr, x, c.freshVal(x.Type(), "next"))
		return
	}
	// arbitrary order: ok is free, the key is some present key
	ok := c.fresh("mapnext", "Bool")
	kv := c.freshVal(mt.Key(), "mk")
	key := keyTerm(c, kv)
	c.assumeAlways(implies(ok, and(not(eq(coll.Term, "0")), c.mapHas(st, mt, coll.Term, key))))
	var vv *Val
	if sortOf(mt.Elem()) != "" {
		vv = c.wf(&Val{T: mt.Elem(), Term: c.mapVal(st, mt, coll.Term, key)})
		c.wfRefs(st, vv)
	} else {
		vv = c.freshVal(mt.Elem(), "mv")
	}
	st.regs[k] = intVal(c.defineInt("pos", app("+", pos.Term, "1")))
	c.set(fr, x, &Val{T: x.Type(), Fs: []*Val{boolVal(ok), kv, vv}})
}

func (c *Ctx) closureBindings(fr *Frame, st *State, x *ssa.MakeClosure, id string) {
	if c.closures == nil {
		c.closures = map[string]*closureInfo{}
	}
	ci := &closureInfo{fn: x.Fn.(*ssa.Function)}
	for _, b := range ci.fn.Blocks {
		for _, in := range b.Instrs {
			if stt, ok := in.(*ssa.Store); ok {
				if _, isFV := stt.Addr.(*ssa.FreeVar); isFV {
					c.unsupported("closure %s assigns to a captured variable", ci.fn.Name())
				}
			}
		}
	}
	for _, b := range x.Bindings {
		ci.bindings = append(ci.bindings, c.val(fr, st, b))
	}
	c.closures[id] = ci
}

type closureInfo struct {
	fn       *ssa.Function
	bindings []*Val
}

func hasPrefixAny(s string, ps ...string) bool {
	for _, p := range ps {
		if strings.HasPrefix(s, p) {
			return true
		}
	}
	return false
}

func isRuneSlice(t types.Type) bool {
	sl, ok := t.Underlying().(*types.Slice)
	if !ok {
		return false
	}
	b, ok := sl.Elem().Underlying().(*types.Basic)
	return ok && b.Kind() == types.Int32
}
