package vc

import (
	"fmt"
	"go/types"
	"math/big"
	"os"
	"path/filepath"
	"sort"
	"strings"
	"sync"

	"golang.org/x/tools/go/packages"
	"golang.org/x/tools/go/ssa"
	"golang.org/x/tools/go/ssa/ssautil"
)

func newBig(i int64) *big.Int { return big.NewInt(i) }

type Program struct {
	Repo            string
	Prog            *ssa.Program
	Pkgs            map[string]*ssa.Package // by path
	Contracts       map[string]*Contract    // key: pkgPath + "::" + name ; externals: "ext::" + name
	ConFiles        []string
	Findings        map[string]*Finding
	Orphans         []*Contract             // contracts whose function does not exist in the current tree
	ProductProblems []ProductProblem        // lockstep products that could not be built
	Overlay         map[string][]byte       // generated files (path inside the repository -> content)
	Locals          map[string][]localEntry // recorded parameters and locals of the functions under contract (locals.go)
	renMu           sync.Mutex
	Renames         map[string]bool
	Invariants      []*Clause
	NonNilDyn       map[string]bool

	mu        sync.Mutex
	strIDs    map[string]int
	typeTags  map[string]int
	tagTypes  []types.Type
	funcs     map[string]*ssa.Function // by pkgPath::RelString
	implCache map[string][]implCand
}

const rootPkg = "github.com/hedzr/logg/slog"

// Load builds SSA for /repo (tag verif) and reads all contract files.
func Load(repo string, extDir string) (*Program, error) {
	cfg := &packages.Config{
		Mode:       packages.LoadAllSyntax,
		Dir:        repo,
		BuildFlags: []string{"-tags=verif"},
		Env: append(os.Environ(), "GOFLAGS=", "GOPROXY=off", "GOSUMDB=off", "GOTOOLCHAIN=local",
			"GOWORK="+filepath.Join(repo, "go.work")),
	}
	// relational obligations: lockstep products generated from the current sources, overlaid on the package
	overlay, probs := GenProducts(repo)
	cfg.Overlay = overlay
	pkgs, err := packages.Load(cfg, "./slog/...")
	if err != nil {
		return nil, err
	}
	nerr := 0
	packages.Visit(pkgs, nil, func(p *packages.Package) {
		for _, e := range p.Errors {
			fmt.Fprintf(os.Stderr, "load error: %s: %v\n", p.PkgPath, e)
			nerr++
		}
	})
	if nerr > 0 {
		return nil, fmt.Errorf("%d package load errors (does /repo compile with -tags=verif?)", nerr)
	}
	prog, _ := ssautil.AllPackages(pkgs, ssa.NaiveForm|ssa.GlobalDebug|ssa.InstantiateGenerics)
	prog.Build()
	P := &Program{Repo: repo, Prog: prog, Pkgs: map[string]*ssa.Package{}, Contracts: map[string]*Contract{},
		strIDs: map[string]int{}, typeTags: map[string]int{}, funcs: map[string]*ssa.Function{}, Findings: map[string]*Finding{}}
	P.ProductProblems = probs
	P.Overlay = overlay
	for _, sp := range prog.AllPackages() {
		P.Pkgs[sp.Pkg.Path()] = sp
	}
	// index functions of logg packages
	for fn := range ssautil.AllFunctions(prog) {
		if fn.Pkg == nil && fn.Origin() == nil {
			continue
		}
		pkg := fn.Pkg
		if pkg == nil && fn.Origin() != nil {
			pkg = fn.Origin().Pkg
		}
		if pkg == nil {
			continue
		}
		P.funcs[pkg.Pkg.Path()+"::"+fn.RelString(pkg.Pkg)] = fn
	}
	// methods nothing refers to any more are still functions of the code base (a contract on one of them
	// must not look like a contract on a missing function)
	for _, sp := range prog.AllPackages() {
		if !strings.HasPrefix(sp.Pkg.Path(), "github.com/hedzr/logg") {
			continue
		}
		for _, m := range sp.Members {
			tn, ok := m.(*ssa.Type)
			if !ok {
				continue
			}
			if _, isIface := tn.Type().Underlying().(*types.Interface); isIface {
				continue
			}
			for _, rt := range []types.Type{tn.Type(), types.NewPointer(tn.Type())} {
				ms := prog.MethodSets.MethodSet(rt)
				for i := 0; i < ms.Len(); i++ {
					sel := ms.At(i)
					if len(sel.Index()) != 1 {
						continue // promoted
					}
					if fn := prog.MethodValue(sel); fn != nil && fn.Synthetic == "" {
						k := sp.Pkg.Path() + "::" + fn.RelString(sp.Pkg)
						if _, have := P.funcs[k]; !have {
							P.funcs[k] = fn
						}
					}
				}
			}
		}
	}
	// contract files: zz_verif_contracts*.go in the loaded logg packages
	var files []string
	packages.Visit(pkgs, nil, func(p *packages.Package) {
		if !strings.HasPrefix(p.PkgPath, "github.com/hedzr/logg") {
			return
		}
		for _, f := range p.GoFiles {
			if strings.HasPrefix(filepath.Base(f), "zz_verif_") {
				files = append(files, p.PkgPath+"\x00"+f)
			}
		}
	})
	sort.Strings(files)
	for _, pf := range files {
		parts := strings.SplitN(pf, "\x00", 2)
		cs, err := ParseContractFileOverlay(parts[1], parts[0], overlay)
		if err != nil {
			return nil, err
		}
		P.ConFiles = append(P.ConFiles, parts[1])
		for _, c := range cs {
			if err := P.addContract(c); err != nil {
				return nil, err
			}
		}
	}
	P.loadLocals(extDir)
	if extDir != "" {
		ext, _ := filepath.Glob(filepath.Join(extDir, "*.lvc"))
		sort.Strings(ext)
		for _, f := range ext {
			cs, err := ParseContractFile(f, "")
			if err != nil {
				return nil, err
			}
			P.ConFiles = append(P.ConFiles, f)
			for _, c := range cs {
				if !c.External && c.Name != "$nonnil" {
					return nil, fmt.Errorf("%s:%d: only 'ext' contracts allowed in externals", f, c.Line)
				}
				if err := P.addContract(c); err != nil {
					return nil, err
				}
			}
		}
	}
	return P, nil
}

// bufferAPIFunc: the methods of *PrintCtx that mirror bytes.Buffer (they manage length and content together).
func bufferAPIFunc(fn *ssa.Function) bool {
	switch fn.Name() {
	case "Write", "WriteString", "WriteByte", "WriteRune", "ReadFrom", "Grow", "grow", "tryGrowByReslice", "PreAlloc":
		if fn.Signature.Recv() != nil && strings.HasSuffix(typeName(fn.Signature.Recv().Type()), "logg/slog.PrintCtx") {
			return true
		}
	}
	return false
}

// expandAuto adds the synthesized non-nil preconditions of an "auto" contract.
func (P *Program) expandAuto(c *Contract, fn *ssa.Function) error {
	add := func(list *[]*Clause, text string) error {
		cl, err := parseClause(c.File, c.Line, text)
		if err != nil {
			return err
		}
		*list = append(*list, cl)
		return nil
	}
	// fields of the per-record context that only set/setentry write (added to whatever the contract lists)
	for _, d := range []string{"PrintCtx.off", "PrintCtx.lvl", "PrintCtx.msg", "PrintCtx.kvps", "PrintCtx.now", "PrintCtx.stackFrame",
		"PrintCtx.jsonMode", "PrintCtx.noColor", "PrintCtx.layout", "PrintCtx.utcTime", "PrintCtx.noQuoted", "PrintCtx.dedupeAttrs",
		// carried from record to record by the pooled context: the attribute key prefix (restored by every
		// serializer that sets it) and the grouped-mode switch (never set)
		"PrintCtx.prefix", "PrintCtx.inGroupedMode",
		// recorders of what splitFirstAndRestLines answered (C09): only printFirstLineOfMsg's call writes them
		"ghost.ioRestLines", "ghost.ioEol", "PrintCtx.restLines", "PrintCtx.eol",
		// "the key of the attribute being printed has been written" (C05): set at the key writer's call
		"ghost.ioKeyed",
		// 1 while a colour switched on by echoColor* has not been reset yet (C06)
		"ghost.ioColor",
		// the dotted key strings.DotPrefix made for the attribute being printed (C05)
		"ghost.ioDot",
		// 1 from the separator written before an attribute until its value is written (C04/C05)
		"ghost.ioSep"} {
		if hasStr(c.NoKeeps, d) {
			continue
		}
		if !hasStr(c.Keeps, d) {
			c.Keeps = append(c.Keeps, d)
		}
	}
	// only the buffer API itself may extend the record buffer's length without writing the new bytes
	// (stale bytes of an earlier record must never become part of this one: C09)
	if !bufferAPIFunc(fn) {
		for _, callee := range []string{"(*PrintCtx).grow", "(*PrintCtx).tryGrowByReslice"} {
			cl, err := parseClause(c.File, c.Line, "[C09.no-raw-grow] false")
			if err == nil {
				c.Asserts = append(c.Asserts, &AtClause{Where: "call " + callee, Clause: cl, Maybe: true})
			}
		}
	}
	for _, p := range fn.Params {
		switch pt := p.Type().Underlying().(type) {
		case *types.Pointer:
			if err := add(&c.Requires, "[auto.nonnil] "+p.Name()+" != nil"); err != nil {
				return err
			}
			if _, ok := pt.Elem().Underlying().(*types.Struct); !ok {
				continue
			}
			if strings.HasSuffix(typeName(pt.Elem()), "logg/slog.PrintCtx") {
				// representation invariant of the record buffer (bytes.Buffer's): 0 <= off <= len(buf)
				// on the logging path the record buffer is never read, so its read offset stays 0
				inv := p.Name() + ".off == 0"
				hasKeep := false
				for _, k := range c.Keeps {
					if k == "PrintCtx.off" {
						hasKeep = true
					}
				}
				if !hasKeep {
					c.Keeps = append(c.Keeps, "PrintCtx.off", "PrintCtx.lvl")
				}
				if err := add(&c.Requires, "[auto.pcinv] "+inv); err != nil {
					return err
				}
				if err := add(&c.Ensures, "[auto.pcinv] "+inv); err != nil {
					return err
				}
				if err := add(&c.LoopAll, "[auto.pcinv] "+inv); err != nil {
					return err
				}
				if err := add(&c.Ensures, "[auto.pcoff] implies(old("+p.Name()+".off) == 0, "+p.Name()+".off == 0)"); err != nil {
					return err
				}
				n := p.Name()
				var eqs []string
				for _, f := range []string{"lvl", "msg", "kvps", "now", "stackFrame", "jsonMode", "noColor", "layout", "utcTime", "noQuoted", "dedupeAttrs"} {
					eqs = append(eqs, n+"."+f+" == old("+n+"."+f+")")
				}
				// per-record configuration fields are written by set/setentry only
				if err := add(&c.Ensures, "[auto.pcconfig] "+strings.Join(eqs, " && ")); err != nil {
					return err
				}
				if err := add(&c.LoopAll, "[auto.pcconfig] "+strings.Join(eqs, " && ")); err != nil {
					return err
				}
			}
		case *types.Signature:
			if err := add(&c.Requires, "[auto.nonnil] "+p.Name()+" != nil"); err != nil {
				return err
			}
		case *types.Interface:
			if typeName(p.Type()) == "io.Writer" {
				// the internal colour helpers are only ever handed the record buffer or a strings.Builder
				d := "dyn(" + p.Name() + ", *PrintCtx)"
				inv := "implies(typeis(" + p.Name() + ", *PrintCtx), " + d + " != nil && " + d + ".off == 0)"
				hasKeep := false
				for _, k := range c.Keeps {
					if k == "PrintCtx.off" {
						hasKeep = true
					}
				}
				if !hasKeep {
					c.Keeps = append(c.Keeps, "PrintCtx.off", "PrintCtx.lvl")
				}
				if err := add(&c.Requires, "[auto.writer] typeis("+p.Name()+", *PrintCtx) || typeis("+p.Name()+", *strings.Builder)"); err != nil {
					return err
				}
				if err := add(&c.Requires, "[auto.pcinv] "+inv); err != nil {
					return err
				}
				if err := add(&c.Ensures, "[auto.pcinv] "+inv); err != nil {
					return err
				}
				if err := add(&c.LoopAll, "[auto.pcinv] "+inv); err != nil {
					return err
				}
			}
		}
	}
	return nil
}

func (P *Program) addContract(c *Contract) error {
	if c.Name == "$nonnil" {
		if P.NonNilDyn == nil {
			P.NonNilDyn = map[string]bool{}
		}
		P.NonNilDyn[c.PkgPath] = true
		return nil
	}
	if c.Name == "$invariant" {
		P.Invariants = append(P.Invariants, c.Requires[0])
		return nil
	}
	key := c.PkgPath + "::" + c.Name
	if c.External {
		key = "ext::" + c.Name
	}
	if _, dup := P.Contracts[key]; dup {
		return fmt.Errorf("%s:%d: duplicate contract for %s", c.File, c.Line, c.Name)
	}
	if !c.External {
		fn, ok := P.funcs[key]
		if !ok {
			// the function this contract was written for is gone (renamed, removed, restructured): the
			// properties the contract names cannot be decided any more; every other property is unaffected
			P.Orphans = append(P.Orphans, c)
			return nil
		}
		if c.Auto {
			if err := P.expandAuto(c, fn); err != nil {
				return err
			}
		}
	}
	P.Contracts[key] = c
	return nil
}

func (P *Program) fnKey(fn *ssa.Function) string {
	pkg := fn.Pkg
	if pkg == nil && fn.Origin() != nil {
		pkg = fn.Origin().Pkg
	}
	if pkg == nil {
		return "?::" + fn.String()
	}
	return pkg.Pkg.Path() + "::" + fn.RelString(pkg.Pkg)
}

func (P *Program) noteRename(fn *ssa.Function, from, to string) {
	P.renMu.Lock()
	defer P.renMu.Unlock()
	if P.Renames == nil {
		P.Renames = map[string]bool{}
	}
	P.Renames[P.fnKey(fn)+": "+from+" -> "+to] = true
}

// ContractOf returns the contract attached to fn (in-package or external).
func (P *Program) ContractOf(fn *ssa.Function) *Contract {
	if c, ok := P.Contracts[P.fnKey(fn)]; ok {
		return c
	}
	if c, ok := P.Contracts["ext::"+fn.String()]; ok {
		return c
	}
	return nil
}

func (P *Program) isLogg(fn *ssa.Function) bool {
	pkg := fn.Pkg
	if pkg == nil && fn.Origin() != nil {
		pkg = fn.Origin().Pkg
	}
	if pkg == nil && fn.Parent() != nil {
		return P.isLogg(fn.Parent())
	}
	return pkg != nil && strings.HasPrefix(pkg.Pkg.Path(), "github.com/hedzr/logg")
}

func (P *Program) strConstID(s string) int {
	P.mu.Lock()
	defer P.mu.Unlock()
	if id, ok := P.strIDs[s]; ok {
		return id
	}
	id := len(P.strIDs) + 1
	P.strIDs[s] = id
	return id
}

// typeTag: integer tag of a concrete dynamic type (0 is the nil interface).
func (P *Program) typeTag(t types.Type) int {
	P.mu.Lock()
	defer P.mu.Unlock()
	k := typeName(t)
	if id, ok := P.typeTags[k]; ok {
		return id
	}
	id := len(P.typeTags) + 1
	P.typeTags[k] = id
	P.tagTypes = append(P.tagTypes, t)
	return id
}

func (P *Program) FuncByName(pkgPath, name string) *ssa.Function {
	return P.funcs[pkgPath+"::"+name]
}

// FindFuncs returns logg functions whose key contains sub (exact match preferred).
func (P *Program) FindFuncs(sub string) []*ssa.Function {
	var keys []string
	for k := range P.funcs {
		if k == sub {
			return []*ssa.Function{P.funcs[k]}
		}
		if strings.Contains(k, sub) && strings.HasPrefix(k, "github.com/hedzr/logg") {
			keys = append(keys, k)
		}
	}
	sort.Strings(keys)
	var out []*ssa.Function
	for _, k := range keys {
		out = append(out, P.funcs[k])
	}
	return out
}

// PropertyNote / PropertyAssumptions: per-property statements that go into the evidence
// (what is only partially decided, which meta-lemmas are unchecked). See notes.go.
func (P *Program) PropertyNote(prop string) string { return propertyNotes[prop] }

func (P *Program) PropertyAssumptions(prop string) []string { return propertyAssumptions[prop] }

// CallTree lists the logg functions reachable from root through static calls (and closures made on the way).
func (P *Program) CallTree(root string) []string {
	fns := P.FindFuncs(root)
	if len(fns) == 0 {
		return nil
	}
	seen := map[*ssa.Function]bool{}
	var out []string
	var walk func(fn *ssa.Function, depth int)
	walk = func(fn *ssa.Function, depth int) {
		if seen[fn] || !P.isLogg(fn) {
			return
		}
		seen[fn] = true
		con := ""
		if c := P.ContractOf(fn); c != nil {
			con = " [contract]"
			if c.Trusted {
				con = " [trusted]"
			}
		}
		nb, ni := len(fn.Blocks), 0
		for _, b := range fn.Blocks {
			ni += len(b.Instrs)
		}
		out = append(out, fmt.Sprintf("%s%s  (%d blocks, %d instrs)%s", strings.Repeat("  ", depth), P.fnKey(fn), nb, ni, con))
		for _, b := range fn.Blocks {
			for _, in := range b.Instrs {
				switch x := in.(type) {
				case ssa.CallInstruction:
					if f, ok := x.Common().Value.(*ssa.Function); ok {
						walk(f, depth+1)
					}
					if mc, ok := x.Common().Value.(*ssa.MakeClosure); ok {
						walk(mc.Fn.(*ssa.Function), depth+1)
					}
				case *ssa.MakeClosure:
					walk(x.Fn.(*ssa.Function), depth+1)
				}
			}
		}
	}
	walk(fns[0], 0)
	return out
}

// Sweep verifies every function of root's call tree; functions without a contract get a synthesized "auto" one.
func (P *Program) Sweep(root string) []*FuncResult {
	fns := P.FindFuncs(root)
	if len(fns) == 0 {
		return nil
	}
	seen := map[*ssa.Function]bool{}
	var list []*ssa.Function
	var walk func(fn *ssa.Function)
	walk = func(fn *ssa.Function) {
		if seen[fn] || !P.isLogg(fn) || len(fn.Blocks) == 0 {
			return
		}
		seen[fn] = true
		list = append(list, fn)
		for _, b := range fn.Blocks {
			for _, in := range b.Instrs {
				switch x := in.(type) {
				case ssa.CallInstruction:
					if f, ok := x.Common().Value.(*ssa.Function); ok {
						walk(f)
					}
				}
			}
		}
	}
	walk(fns[0])
	for _, fn := range list {
		if P.ContractOf(fn) == nil && fn.Synthetic == "" {
			pkg := fn.Pkg
			if pkg == nil && fn.Origin() != nil {
				pkg = fn.Origin().Pkg
			}
			if pkg == nil {
				continue
			}
			c := &Contract{Name: fn.RelString(pkg.Pkg), PkgPath: pkg.Pkg.Path(), Loops: map[int]*LoopSpec{}, Auto: true, AssignsAll: true, HasAssigns: true, NoGhost: true, File: "auto", Props: []string{"SWEEP"}}
			P.expandAuto(c, fn)
			P.Contracts[c.PkgPath+"::"+c.Name] = c
		}
	}
	results := make([]*FuncResult, len(list))
	var wg sync.WaitGroup
	sem := make(chan struct{}, 16)
	for i, fn := range list {
		wg.Add(1)
		go func(i int, fn *ssa.Function) {
			defer wg.Done()
			sem <- struct{}{}
			defer func() { <-sem }()
			results[i] = P.VerifyFunc(fn)
		}(i, fn)
	}
	wg.Wait()
	return results
}

// inRoot: fn belongs to the root package (where the package invariants are declared).
func (P *Program) inRoot(fn *ssa.Function) bool {
	pkg := fn.Pkg
	if pkg == nil && fn.Origin() != nil {
		pkg = fn.Origin().Pkg
	}
	if pkg == nil && fn.Parent() != nil {
		return P.inRoot(fn.Parent())
	}
	return pkg != nil && pkg.Pkg.Path() == rootPkg
}
