package vc

// Relational ("product program") obligations for functions that are meant to compute the same thing as a
// function of the Go toolchain's standard library (C20: times.ParseDuration against time.ParseDuration).
//
// On every run the generator reads the *real* source of both functions - /repo's file and the toolchain's
// $GOROOT/src file - renames the locals of the two copies apart (suffix _a for /repo's, _b for the
// toolchain's) and interleaves the two bodies statement by statement into one Go function ("lockstep
// product"). Straight-line statements are emitted once per side; every branch condition is evaluated on both
// sides and an obligation says the two agree; every loop becomes one loop whose invariant couples the paired
// variables; every return asserts nothing by itself but the product's postcondition says the paired results
// agree. The generated file is handed to the loader as an overlay of the package directory (nothing is written
// to /repo) and is verified by the ordinary pipeline.
//
// What the construction drops or changes (all of it mechanical):
//   - locals are renamed; unnamed results get names; `return e1, e2` becomes an assignment to them and `return`
//   - `for init; cond; post` becomes `init; for ; ; post { if !cond {break} ... }`
//   - a type parameter constrained to `[]byte | string` is instantiated with string (the only instance the
//     paired callers use)
//   - identifiers of the toolchain package are qualified (Duration -> time.Duration)
//   - the package-level lookup tables are read through fresh copies of their initializer literals; that no
//     code of either package writes them is checked syntactically on every run (obligation `#immutable`)
//   - calls between paired functions become calls of the callee's product (used modularly, by contract)
//   - run-time panics are outside the comparison (`panics when true`): panic freedom of /repo's functions is
//     the business of their own contracts

import (
	"bytes"
	"fmt"
	"go/ast"
	"go/format"
	"go/parser"
	"go/printer"
	"go/token"
	"go/types"
	"os"
	"os/exec"
	"path/filepath"
	"sort"
	"strings"
)

type productSpec struct {
	Prop     string   // property the obligations count for
	PkgDir   string   // package directory below the repository root
	PkgName  string   // package name
	FileA    string   // file of the repository (relative to PkgDir)
	StdPkg   string   // import path of the toolchain package
	FileB    string   // file below $GOROOT/src/<StdPkg>
	Funcs    []string // paired functions, callees first
	Tables   []string // package-level lookup tables (map literals) read by both
	DayKeys  map[string]string
	BIdents  map[string]string // unexported toolchain identifiers that have a namesake in the repository package
	TypeArgs map[string]string // type parameter -> instance
	OutFile  string            // name of the generated file inside PkgDir
}

var productSpecs = []*productSpec{{
	Prop: "C20", PkgDir: "slog/internal/times", PkgName: "times", FileA: "dur.go",
	StdPkg: "time", FileB: "format.go",
	Funcs:    []string{"leadingInt", "leadingFraction", "ParseDuration"},
	Tables:   []string{"unitMap"},
	DayKeys:  map[string]string{"unitMap": "d"},
	BIdents:  map[string]string{"quote": "quote", "errLeadingInt": "errLeadingInt"},
	TypeArgs: map[string]string{"bytes": "string"},
	OutFile:  "zz_verif_product_c20.go",
}}

// ProductProblem is a reason the product could not be built (reported as a failed obligation of the property).
type ProductProblem struct {
	Prop, Name, Msg string
}

type prodGen struct {
	spec   *productSpec
	fset   *token.FileSet
	out    bytes.Buffer
	con    bytes.Buffer
	ncond  int
	nloop  int
	err    error
	scopes [][][2]string // paired variables in scope (innermost last): name on side a, name on side b
	resA   []string
	resB   []string
	// the function being generated has a divergence point (a table lookup, or a call of a product that has one)
	diverges        bool
	tableDiv        bool
	mayDiverge      map[string]bool
	calledDiverging bool
}

func goroot() string {
	cmd := exec.Command("go", "env", "GOROOT")
	cmd.Env = append(os.Environ(), "GOTOOLCHAIN=local", "GOFLAGS=")
	b, err := cmd.Output()
	if err != nil {
		return ""
	}
	return strings.TrimSpace(string(b))
}

// GenProducts builds the product files. It returns overlay path -> content, and the problems found.
func GenProducts(repo string) (map[string][]byte, []ProductProblem) {
	overlay := map[string][]byte{}
	var probs []ProductProblem
	root := goroot()
	for _, sp := range productSpecs {
		src, err := genProduct(repo, root, sp)
		if err != nil {
			probs = append(probs, ProductProblem{Prop: sp.Prop, Name: sp.PkgName + "." + sp.Funcs[len(sp.Funcs)-1] + "#product[structure]",
				Msg: "the lockstep product of " + sp.PkgName + "." + sp.Funcs[len(sp.Funcs)-1] + " and " + sp.StdPkg + "." + sp.Funcs[len(sp.Funcs)-1] + " cannot be built: " + err.Error()})
			continue
		}
		overlay[filepath.Join(repo, sp.PkgDir, sp.OutFile)] = src
	}
	return overlay, probs
}

func findFunc(f *ast.File, name string) *ast.FuncDecl {
	for _, d := range f.Decls {
		if fd, ok := d.(*ast.FuncDecl); ok && fd.Recv == nil && fd.Name.Name == name {
			return fd
		}
	}
	return nil
}

func findVar(f *ast.File, name string) *ast.ValueSpec {
	for _, d := range f.Decls {
		if gd, ok := d.(*ast.GenDecl); ok && gd.Tok == token.VAR {
			for _, s := range gd.Specs {
				vs := s.(*ast.ValueSpec)
				for _, n := range vs.Names {
					if n.Name == name {
						return vs
					}
				}
			}
		}
	}
	return nil
}

// immutable: in every non-test file of dir, the identifier name (a package-level variable) occurs only in its
// declaration and as the operand of an index expression that is read.
func immutable(dir, name string) error {
	ents, err := os.ReadDir(dir)
	if err != nil {
		return err
	}
	fset := token.NewFileSet()
	for _, e := range ents {
		if e.IsDir() || !strings.HasSuffix(e.Name(), ".go") || strings.HasSuffix(e.Name(), "_test.go") || strings.HasPrefix(e.Name(), "zz_verif_") {
			continue
		}
		f, err := parser.ParseFile(fset, filepath.Join(dir, e.Name()), nil, parser.SkipObjectResolution)
		if err != nil {
			return err
		}
		ok := map[*ast.Ident]bool{}
		var bad error
		ast.Inspect(f, func(n ast.Node) bool {
			switch x := n.(type) {
			case *ast.ValueSpec:
				for _, id := range x.Names {
					ok[id] = true
				}
			case *ast.AssignStmt:
				for _, l := range x.Lhs {
					if ix, isIx := l.(*ast.IndexExpr); isIx {
						if id, isId := ix.X.(*ast.Ident); isId && id.Name == name {
							bad = fmt.Errorf("%s: %s is written", fset.Position(id.Pos()), name)
						}
					}
				}
			case *ast.IndexExpr:
				if id, isId := x.X.(*ast.Ident); isId && id.Name == name {
					ok[id] = true
				}
			case *ast.Field:
				for _, id := range x.Names {
					ok[id] = true // a parameter or field of that name shadows; conservative scan below still sees uses
				}
			}
			return true
		})
		if bad != nil {
			return bad
		}
		ast.Inspect(f, func(n ast.Node) bool {
			if id, isId := n.(*ast.Ident); isId && id.Name == name && !ok[id] {
				bad = fmt.Errorf("%s: %s is used other than by reading an element", fset.Position(id.Pos()), name)
			}
			return true
		})
		if bad != nil {
			return bad
		}
	}
	return nil
}

func genProduct(repo, root string, sp *productSpec) ([]byte, error) {
	if root == "" {
		return nil, fmt.Errorf("GOROOT not found")
	}
	fset := token.NewFileSet()
	pa := filepath.Join(repo, sp.PkgDir, sp.FileA)
	pb := filepath.Join(root, "src", sp.StdPkg, sp.FileB)
	g := &prodGen{spec: sp, fset: fset}
	w := func(format string, a ...any) { fmt.Fprintf(&g.out, format, a...) }
	w("//go:build verif\n\n// Code generated by lvc (engine/vc/product.go) from %s and %s. DO NOT EDIT.\n\npackage %s\n\n", filepath.Join(sp.PkgDir, sp.FileA), filepath.Join("$GOROOT/src", sp.StdPkg, sp.FileB), sp.PkgName)
	w("import (\n\t\"errors\"\n\t\"%s\"\n)\n\nvar _ = errors.New\nvar _ %s.Duration\n\n", sp.StdPkg, sp.StdPkg)
	for _, lbl := range []string{"branch", "day"} {
		w("func lvcAgree_%s(b bool) {}\n\n", lbl)
	}
	fmt.Fprintf(&g.con, "//@ func lvcAgree_branch\n//@   props %s\n//@   requires [%s.agree-branch] b\n\n", sp.Prop, sp.Prop)
	fmt.Fprintf(&g.con, "//@ func lvcAgree_day\n//@   props %s\n//@   requires [%s.only-day] b\n\n", sp.Prop, sp.Prop)

	// lookup tables
	for _, t := range sp.Tables {
		fa, err := parser.ParseFile(fset, pa, nil, 0)
		if err != nil {
			return nil, err
		}
		fb, err := parser.ParseFile(fset, pb, nil, 0)
		if err != nil {
			return nil, err
		}
		va, vb := findVar(fa, t), findVar(fb, t)
		if va == nil || vb == nil || len(va.Values) != 1 || len(vb.Values) != 1 {
			return nil, fmt.Errorf("table %s not found as a single initialized variable on both sides", t)
		}
		if err := immutable(filepath.Join(repo, sp.PkgDir), t); err != nil {
			return nil, fmt.Errorf("table %s of the repository is not read-only: %v", t, err)
		}
		if err := immutable(filepath.Join(root, "src", sp.StdPkg), t); err != nil {
			return nil, fmt.Errorf("table %s of the toolchain is not read-only: %v", t, err)
		}
		la, ok1 := va.Values[0].(*ast.CompositeLit)
		lb, ok2 := vb.Values[0].(*ast.CompositeLit)
		if !ok1 || !ok2 {
			return nil, fmt.Errorf("table %s is not a composite literal", t)
		}
		mt, ok := la.Type.(*ast.MapType)
		if !ok {
			return nil, fmt.Errorf("table %s is not a map literal", t)
		}
		g.qualifyStd(lb, nil)
		kt, vt := g.expr(mt.Key), g.expr(mt.Value)
		w("// the two tables, read through their initializer literals\nfunc prod_%s(k_a %s, k_b %s) (v_a %s, ok_a bool, v_b %s, ok_b bool) {\n", t, kt, kt, vt, vt)
		w("\tm_a := %s\n\tm_b := %s\n\tv_a, ok_a = m_a[k_a]\n\tv_b, ok_b = m_b[k_b]\n\treturn\n}\n\n", g.expr(la), g.expr(lb))
		day := sp.DayKeys[t]
		fmt.Fprintf(&g.con, "//@ func prod_%s\n//@   props %s\n//@   requires [%s.coupled-in] k_a == k_b\n", t, sp.Prop, sp.Prop)
		fmt.Fprintf(&g.con, "//@   ensures [%s.tables-agree] k_a == %q || (v_a == v_b && ok_a == ok_b)\n", sp.Prop, day)
		fmt.Fprintf(&g.con, "//@   ensures [%s.only-day] implies(k_a == %q, !ok_b)\n\n", sp.Prop, day)
	}

	for _, fn := range sp.Funcs {
		// parse afresh for every function: the ASTs are renamed in place
		fa, err := parser.ParseFile(fset, pa, nil, 0)
		if err != nil {
			return nil, err
		}
		fb, err := parser.ParseFile(fset, pb, nil, 0)
		if err != nil {
			return nil, err
		}
		da, db := findFunc(fa, fn), findFunc(fb, fn)
		if da == nil || db == nil {
			return nil, fmt.Errorf("function %s not found on both sides", fn)
		}
		if err := g.function(fn, da, db); err != nil {
			return nil, fmt.Errorf("%s: %v", fn, err)
		}
	}
	src, err := format.Source(g.out.Bytes())
	if err != nil {
		return nil, fmt.Errorf("generated product does not parse: %v", err)
	}
	return append(append(src, '\n'), g.con.Bytes()...), nil
}

func (g *prodGen) expr(n ast.Node) string {
	var b bytes.Buffer
	cfg := printer.Config{Mode: printer.RawFormat}
	if err := cfg.Fprint(&b, token.NewFileSet(), n); err != nil {
		g.fail("print: %v", err)
	}
	return b.String()
}

func (g *prodGen) fail(format string, a ...any) {
	if g.err == nil {
		g.err = fmt.Errorf(format, a...)
	}
}

// qualifyStd rewrites, inside a toolchain AST, the identifiers that refer to package-level objects of the
// toolchain package: exported ones are qualified, the listed unexported ones are mapped to their namesakes.
func (g *prodGen) qualifyStd(n ast.Node, locals map[*ast.Object]bool) {
	sel := map[*ast.Ident]bool{}
	ast.Inspect(n, func(x ast.Node) bool {
		if s, ok := x.(*ast.SelectorExpr); ok {
			sel[s.Sel] = true
			if id, ok := s.X.(*ast.Ident); ok && id.Obj == nil {
				sel[id] = true // a package name
			}
		}
		return true
	})
	ast.Inspect(n, func(x ast.Node) bool {
		id, ok := x.(*ast.Ident)
		if !ok || sel[id] || id.Name == "_" {
			return true
		}
		if id.Obj != nil && locals[id.Obj] {
			return true
		}
		if types.Universe.Lookup(id.Name) != nil && id.Obj == nil {
			return true
		}
		if _, isType := g.spec.TypeArgs[id.Name]; isType {
			return true
		}
		for _, f := range g.spec.Funcs {
			if f == id.Name {
				return true // handled by the pairing of calls
			}
		}
		for _, t := range g.spec.Tables {
			if t == id.Name {
				return true // handled by the pairing of lookups
			}
		}
		if to, ok := g.spec.BIdents[id.Name]; ok {
			id.Name = to
			return true
		}
		if id.Obj != nil && id.Obj.Kind == ast.Pkg {
			return true
		}
		if ast.IsExported(id.Name) {
			id.Name = g.spec.StdPkg + "." + id.Name
			return true
		}
		if id.Obj == nil || !locals[id.Obj] {
			g.fail("toolchain identifier %s has no counterpart", id.Name)
		}
		return true
	})
}

// rename gives every local variable of fd (parameters, results, locals) the suffix and instantiates type
// parameters. It returns the set of local objects.
func (g *prodGen) rename(fd *ast.FuncDecl, suffix string) map[*ast.Object]bool {
	locals := map[*ast.Object]bool{}
	tparams := map[*ast.Object]string{}
	if fd.Type.TypeParams != nil {
		for _, f := range fd.Type.TypeParams.List {
			for _, n := range f.Names {
				inst, ok := g.spec.TypeArgs[n.Name]
				if !ok {
					g.fail("type parameter %s has no instance", n.Name)
				}
				if n.Obj != nil {
					tparams[n.Obj] = inst
				}
			}
		}
	}
	ast.Inspect(fd, func(x ast.Node) bool {
		id, ok := x.(*ast.Ident)
		if !ok || id.Obj == nil {
			return true
		}
		if inst, ok := tparams[id.Obj]; ok {
			id.Name = inst
			id.Obj = nil
			return true
		}
		if id.Obj.Kind == ast.Var && id.Obj.Pos() >= fd.Pos() && id.Obj.Pos() < fd.End() {
			locals[id.Obj] = true
		}
		return true
	})
	ast.Inspect(fd, func(x ast.Node) bool {
		id, ok := x.(*ast.Ident)
		if ok && id.Obj != nil && locals[id.Obj] && id.Name != "_" && !strings.HasSuffix(id.Name, suffix) {
			id.Name += suffix
		}
		return true
	})
	return locals
}

type pvar struct{ name, typ string }

func (g *prodGen) fields(fl *ast.FieldList, prefix, suffix string) []pvar {
	var out []pvar
	if fl == nil {
		return nil
	}
	k := 0
	for _, f := range fl.List {
		t := g.expr(f.Type)
		if len(f.Names) == 0 {
			out = append(out, pvar{fmt.Sprintf("%s%d%s", prefix, k, suffix), t})
			k++
			continue
		}
		for _, n := range f.Names {
			out = append(out, pvar{n.Name, t})
			k++
		}
	}
	return out
}

func base(name string) string {
	return strings.TrimSuffix(strings.TrimSuffix(name, "_a"), "_b")
}

func (g *prodGen) function(name string, da, db *ast.FuncDecl) error {
	g.rename(da, "_a")
	lb := g.rename(db, "_b")
	g.qualifyStd(db, lb)
	if g.err != nil {
		return g.err
	}
	pa, pb := g.fields(da.Type.Params, "p", "_a"), g.fields(db.Type.Params, "p", "_b")
	ra, rb := g.fields(da.Type.Results, "r", "_a"), g.fields(db.Type.Results, "r", "_b")
	if len(pa) != len(pb) || len(ra) != len(rb) {
		return fmt.Errorf("signatures differ")
	}
	g.resA, g.resB = nil, nil
	for i := range ra {
		g.resA = append(g.resA, ra[i].name)
		g.resB = append(g.resB, rb[i].name)
	}
	var ps, rs []string
	for _, p := range pa {
		ps = append(ps, p.name+" "+p.typ)
	}
	for _, p := range pb {
		ps = append(ps, p.name+" "+p.typ)
	}
	for _, r := range ra {
		rs = append(rs, r.name+" "+r.typ)
	}
	for _, r := range rb {
		rs = append(rs, r.name+" "+r.typ)
	}
	rs = append(rs, "diverged bool")
	fmt.Fprintf(&g.out, "func prod_%s(%s) (%s) {\n", name, strings.Join(ps, ", "), strings.Join(rs, ", "))
	g.nloop = 0
	g.tableDiv = false
	var scope [][2]string
	for i, p := range pa {
		scope = append(scope, [2]string{p.name, pb[i].name})
	}
	for i, r := range ra {
		scope = append(scope, [2]string{r.name, rb[i].name})
	}
	g.scopes = [][][2]string{scope}
	var loops []string
	g.block(da.Body.List, db.Body.List, 1, &loops)
	if g.err != nil {
		return g.err
	}
	fmt.Fprintf(&g.out, "\treturn\n}\n\n")
	prop := g.spec.Prop
	fmt.Fprintf(&g.con, "//@ func prod_%s\n//@   props %s\n//@   nosafety\n//@   assigns everything\n", name, prop)
	var in []string
	for i, p := range pa {
		in = append(in, fmt.Sprintf("coupled(%s, %s)", p.name, pb[i].name))
	}
	fmt.Fprintf(&g.con, "//@   requires [%s.coupled-in] %s\n", prop, strings.Join(in, " && "))
	var outc []string
	for i, r := range ra {
		outc = append(outc, fmt.Sprintf("coupled(%s, %s)", r.name, rb[i].name))
	}
	fmt.Fprintf(&g.con, "//@   ensures [%s.agree-%s] diverged || (%s)\n", prop, name, strings.Join(outc, " && "))
	if g.mayDiverge == nil {
		g.mayDiverge = map[string]bool{}
	}
	g.mayDiverge[name] = g.tableDiv || g.calledDiverging
	if !g.mayDiverge[name] {
		fmt.Fprintf(&g.con, "//@   ensures [%s.no-divergence] !diverged\n", prop)
	}
	g.calledDiverging = false
	for _, l := range loops {
		g.con.WriteString(l)
	}
	g.con.WriteString("\n")
	return nil
}

func (g *prodGen) ind(d int) string { return strings.Repeat("\t", d) }

func (g *prodGen) inScope() [][2]string {
	seen := map[string]bool{}
	var out [][2]string
	for _, s := range g.scopes {
		for _, v := range s {
			if !seen[v[0]] && v[0] != "_" && v[1] != "_" {
				seen[v[0]] = true
				out = append(out, v)
			}
		}
	}
	sort.Slice(out, func(i, j int) bool { return out[i][0] < out[j][0] })
	return out
}

// declare records the variables two paired statements declare, position by position.
func (g *prodGen) declare(a, b []string) {
	if len(a) != len(b) {
		g.fail("paired declarations introduce different numbers of variables")
		return
	}
	top := len(g.scopes) - 1
	for i := range a {
		g.scopes[top] = append(g.scopes[top], [2]string{a[i], b[i]})
	}
}

func identNames(es []ast.Expr) []string {
	var out []string
	for _, e := range es {
		if id, ok := e.(*ast.Ident); ok {
			out = append(out, id.Name)
		} else {
			out = append(out, "_")
		}
	}
	return out
}

func declNames(d *ast.DeclStmt) []string {
	var out []string
	if gd, ok := d.Decl.(*ast.GenDecl); ok {
		for _, s := range gd.Specs {
			if vs, ok := s.(*ast.ValueSpec); ok {
				for _, n := range vs.Names {
					out = append(out, n.Name)
				}
			}
		}
	}
	return out
}

func (g *prodGen) block(a, b []ast.Stmt, d int, loops *[]string) {
	if len(a) != len(b) {
		g.fail("blocks of different length (%d and %d statements)", len(a), len(b))
		return
	}
	g.scopes = append(g.scopes, nil)
	for i := range a {
		g.stmt(a[i], b[i], d, loops)
		if g.err != nil {
			break
		}
	}
	g.scopes = g.scopes[:len(g.scopes)-1]
}

func pairedCall(sp *productSpec, s *ast.AssignStmt) (string, *ast.CallExpr) {
	if len(s.Rhs) != 1 {
		return "", nil
	}
	c, ok := s.Rhs[0].(*ast.CallExpr)
	if !ok {
		return "", nil
	}
	id, ok := c.Fun.(*ast.Ident)
	if !ok {
		return "", nil
	}
	for _, f := range sp.Funcs {
		if f == id.Name {
			return f, c
		}
	}
	return "", nil
}

func tableLookup(sp *productSpec, s *ast.AssignStmt) (string, *ast.IndexExpr) {
	if len(s.Rhs) != 1 || len(s.Lhs) != 2 {
		return "", nil
	}
	ix, ok := s.Rhs[0].(*ast.IndexExpr)
	if !ok {
		return "", nil
	}
	id, ok := ix.X.(*ast.Ident)
	if !ok {
		return "", nil
	}
	for _, t := range sp.Tables {
		if t == id.Name {
			return t, ix
		}
	}
	return "", nil
}

// mentions reports whether n mentions a paired function or a table other than through the handled forms.
func (g *prodGen) checkNoStray(n ast.Node) {
	ast.Inspect(n, func(x ast.Node) bool {
		if id, ok := x.(*ast.Ident); ok && id.Obj == nil || ok && id.Obj != nil && id.Obj.Kind != ast.Var {
			for _, f := range g.spec.Funcs {
				if id.Name == f {
					g.fail("call of %s in a position the product does not handle", f)
				}
			}
		}
		if id, ok := x.(*ast.Ident); ok {
			for _, t := range g.spec.Tables {
				if id.Name == t {
					g.fail("use of table %s in a position the product does not handle", t)
				}
			}
		}
		return true
	})
}

func (g *prodGen) exprs(es []ast.Expr) string {
	var out []string
	for _, e := range es {
		out = append(out, g.expr(e))
	}
	return strings.Join(out, ", ")
}

func (g *prodGen) stmt(a, b ast.Stmt, d int, loops *[]string) {
	w := func(format string, x ...any) {
		g.out.WriteString(g.ind(d))
		fmt.Fprintf(&g.out, format, x...)
		g.out.WriteString("\n")
	}
	switch sa := a.(type) {
	case *ast.AssignStmt:
		sb, ok := b.(*ast.AssignStmt)
		if !ok || sa.Tok != sb.Tok || len(sa.Lhs) != len(sb.Lhs) {
			g.fail("statement kinds differ at %s", g.fset.Position(a.Pos()))
			return
		}
		if sa.Tok == token.DEFINE {
			g.declare(identNames(sa.Lhs), identNames(sb.Lhs))
		}
		if fa, ca := pairedCall(g.spec, sa); fa != "" {
			fb, cb := pairedCall(g.spec, sb)
			if fb != fa {
				g.fail("paired calls differ at %s", g.fset.Position(a.Pos()))
				return
			}
			for _, e := range append(append([]ast.Expr{}, ca.Args...), cb.Args...) {
				g.checkNoStray(e)
			}
			g.ncond++
			dv := fmt.Sprintf("lvc_dv%d", g.ncond)
			w("var %s bool", dv)
			w("%s, %s, %s %s prod_%s(%s, %s)", g.exprs(sa.Lhs), g.exprs(sb.Lhs), dv, map[token.Token]string{token.DEFINE: ":=", token.ASSIGN: "="}[sa.Tok], fa, g.exprs(ca.Args), g.exprs(cb.Args))
			w("if %s {", dv)
			w("\tdiverged = true")
			w("\treturn")
			w("}")
			g.diverges = true
			if g.mayDiverge[fa] {
				g.calledDiverging = true
			}
			return
		}
		if ta, ia := tableLookup(g.spec, sa); ta != "" {
			tb, ib := tableLookup(g.spec, sb)
			if tb != ta {
				g.fail("table lookups differ at %s", g.fset.Position(a.Pos()))
				return
			}
			tok := map[token.Token]string{token.DEFINE: ":=", token.ASSIGN: "="}[sa.Tok]
			la, lb := g.exprs(sa.Lhs), g.exprs(sb.Lhs)
			w("%s, %s %s prod_%s(%s, %s)", la, lb, tok, ta, g.expr(ia.Index), g.expr(ib.Index))
			va, oka := g.expr(sa.Lhs[0]), g.expr(sa.Lhs[1])
			vb, okb := g.expr(sb.Lhs[0]), g.expr(sb.Lhs[1])
			w("if %s != %s || %s != %s {", va, vb, oka, okb)
			w("\tlvcAgree_day(%s == %q && !%s)", g.expr(ia.Index), g.spec.DayKeys[ta], okb)
			w("\tdiverged = true")
			w("\treturn")
			w("}")
			g.diverges = true
			g.tableDiv = true
			return
		}
		g.checkNoStray(sa)
		g.checkNoStray(sb)
		w("%s", g.expr(sa))
		w("%s", g.expr(sb))
	case *ast.DeclStmt:
		sb, ok := b.(*ast.DeclStmt)
		if !ok {
			g.fail("statement kinds differ at %s", g.fset.Position(a.Pos()))
			return
		}
		g.checkNoStray(sa)
		g.checkNoStray(sb)
		g.declare(declNames(sa), declNames(sb))
		w("%s", g.expr(sa))
		w("%s", g.expr(sb))
	case *ast.IncDecStmt:
		if _, ok := b.(*ast.IncDecStmt); !ok {
			g.fail("statement kinds differ at %s", g.fset.Position(a.Pos()))
			return
		}
		w("%s", g.expr(a))
		w("%s", g.expr(b))
	case *ast.ExprStmt:
		if _, ok := b.(*ast.ExprStmt); !ok {
			g.fail("statement kinds differ at %s", g.fset.Position(a.Pos()))
			return
		}
		g.checkNoStray(a)
		g.checkNoStray(b)
		w("%s", g.expr(a))
		w("%s", g.expr(b))
	case *ast.BranchStmt:
		sb, ok := b.(*ast.BranchStmt)
		if !ok || sb.Tok != sa.Tok || sa.Label != nil || sb.Label != nil {
			g.fail("branch statements differ at %s", g.fset.Position(a.Pos()))
			return
		}
		w("%s", sa.Tok.String())
	case *ast.BlockStmt:
		sb, ok := b.(*ast.BlockStmt)
		if !ok {
			g.fail("statement kinds differ at %s", g.fset.Position(a.Pos()))
			return
		}
		w("{")
		g.block(sa.List, sb.List, d+1, loops)
		w("}")
	case *ast.ReturnStmt:
		sb, ok := b.(*ast.ReturnStmt)
		if !ok || len(sa.Results) != len(sb.Results) {
			g.fail("return statements differ at %s", g.fset.Position(a.Pos()))
			return
		}
		if len(sa.Results) > 0 {
			if len(sa.Results) != len(g.resA) {
				g.fail("return of a call result is not handled at %s", g.fset.Position(a.Pos()))
				return
			}
			for _, e := range append(append([]ast.Expr{}, sa.Results...), sb.Results...) {
				g.checkNoStray(e)
			}
			w("%s = %s", strings.Join(g.resA, ", "), g.exprs(sa.Results))
			w("%s = %s", strings.Join(g.resB, ", "), g.exprs(sb.Results))
		}
		w("return")
	case *ast.IfStmt:
		sb, ok := b.(*ast.IfStmt)
		if !ok || (sa.Else == nil) != (sb.Else == nil) || (sa.Init == nil) != (sb.Init == nil) {
			g.fail("if statements differ at %s", g.fset.Position(a.Pos()))
			return
		}
		w("{")
		g.scopes = append(g.scopes, nil)
		if sa.Init != nil {
			g.stmt(sa.Init, sb.Init, d+1, loops)
		}
		g.checkNoStray(sa.Cond)
		g.checkNoStray(sb.Cond)
		g.ncond++
		ca, cb := fmt.Sprintf("lvc_c%d_a", g.ncond), fmt.Sprintf("lvc_c%d_b", g.ncond)
		w("\t%s := %s", ca, g.expr(sa.Cond))
		w("\t%s := %s", cb, g.expr(sb.Cond))
		w("\tlvcAgree_branch(%s == %s)", ca, cb)
		w("\tif %s {", ca)
		g.block(sa.Body.List, sb.Body.List, d+2, loops)
		if sa.Else != nil {
			w("\t} else {")
			switch ea := sa.Else.(type) {
			case *ast.BlockStmt:
				eb, ok := sb.Else.(*ast.BlockStmt)
				if !ok {
					g.fail("else branches differ at %s", g.fset.Position(a.Pos()))
					return
				}
				g.block(ea.List, eb.List, d+2, loops)
			default:
				g.scopes = append(g.scopes, nil)
				g.stmt(sa.Else, sb.Else, d+2, loops)
				g.scopes = g.scopes[:len(g.scopes)-1]
			}
		}
		w("\t}")
		g.scopes = g.scopes[:len(g.scopes)-1]
		w("}")
	case *ast.ForStmt:
		sb, ok := b.(*ast.ForStmt)
		if !ok || (sa.Init == nil) != (sb.Init == nil) || (sa.Cond == nil) != (sb.Cond == nil) || (sa.Post == nil) != (sb.Post == nil) {
			g.fail("for statements differ at %s", g.fset.Position(a.Pos()))
			return
		}
		w("{")
		g.scopes = append(g.scopes, nil)
		if sa.Init != nil {
			g.stmt(sa.Init, sb.Init, d+1, loops)
		}
		post := ""
		if sa.Post != nil {
			pa, okA := sa.Post.(*ast.IncDecStmt)
			pb, okB := sb.Post.(*ast.IncDecStmt)
			if !okA || !okB || pa.Tok != pb.Tok {
				g.fail("loop post statements are not handled at %s", g.fset.Position(a.Pos()))
				return
			}
			op := "+"
			if pa.Tok == token.DEC {
				op = "-"
			}
			xa, xb := g.expr(pa.X), g.expr(pb.X)
			post = fmt.Sprintf("%s, %s = %s%s1, %s%s1", xa, xb, xa, op, xb, op)
		}
		g.nloop++
		n := g.nloop
		var cs []string
		for _, v := range g.inScope() {
			cs = append(cs, fmt.Sprintf("coupled(%s, %s)", v[0], v[1]))
		}
		*loops = append(*loops, fmt.Sprintf("//@   loop %d invariant [%s.coupled] !diverged && %s\n", n, g.spec.Prop, strings.Join(cs, " && ")))
		w("\tfor ; ; %s {", post)
		if sa.Cond != nil {
			g.checkNoStray(sa.Cond)
			g.checkNoStray(sb.Cond)
			g.ncond++
			ca, cb := fmt.Sprintf("lvc_c%d_a", g.ncond), fmt.Sprintf("lvc_c%d_b", g.ncond)
			w("\t\t%s := %s", ca, g.expr(sa.Cond))
			w("\t\t%s := %s", cb, g.expr(sb.Cond))
			w("\t\tlvcAgree_branch(%s == %s)", ca, cb)
			w("\t\tif !%s {", ca)
			w("\t\t\tbreak")
			w("\t\t}")
		}
		g.block(sa.Body.List, sb.Body.List, d+2, loops)
		w("\t}")
		g.scopes = g.scopes[:len(g.scopes)-1]
		w("}")
	default:
		g.fail("statement %T is not handled at %s", a, g.fset.Position(a.Pos()))
	}
}
