package vc

import (
	"fmt"
	"go/types"
	"regexp"
	"strings"
)

func init() {
	replayTemplates["C01"] = replayLoggerGate
	searchTemplates["C20"] = replayParserDiff
}

var parserDiffDone = map[string]string{}

// replayParserDiff: a failed obligation of the lockstep product times.ParseDuration x time.ParseDuration is
// followed by a differential search on the two real functions (boundary values of every unit, fractions,
// every string of up to four characters over the duration alphabet, 200000 generated durations with a fixed
// seed). A disagreement is a replayed counterexample; none found leaves the violation without one.
func replayParserDiff(P *Program, dir string, r *FuncResult, o *Obligation, log *strings.Builder) string {
	fn := r.ctx.fn
	if !strings.HasPrefix(fn.Name(), "prod_") {
		return ""
	}
	if p, done := parserDiffDone[dir]; done {
		if p != "" {
			o.Replayed = true
			fmt.Fprintf(log, "replay: the differential search already reproduced a disagreement: %s\n", p)
		}
		return p
	}
	p := P.runReplay(dir, fn, o, parserDiffSrc, log)
	parserDiffDone[dir] = p
	return p
}

const parserDiffSrc = `package times

import (
	"math/rand"
	"strconv"
	"strings"
	"testing"
	"time"
)

func lvcDiffOne(t *testing.T, s string) {
	if strings.Contains(s, "d") {
		return // the day unit is the one permitted difference
	}
	d1, e1 := ParseDuration(s)
	d2, e2 := time.ParseDuration(s)
	if d1 != d2 || (e1 == nil) != (e2 == nil) {
		t.Fatalf("REPRODUCED: times.ParseDuration(%q) = %d, %v but time.ParseDuration(%q) = %d, %v", s, int64(d1), e1, s, int64(d2), e2)
	}
}

func TestLvcReplay(t *testing.T) {
	units := []string{"ns", "us", "µs", "μs", "ms", "s", "m", "h"}
	vals := []uint64{1, 1e3, 1e3, 1e3, 1e6, 1e9, 60e9, 3600e9}
	fracs := []string{"0.1", "0.5", ".5", "1.5", "0.000000001", "0.123456789012345678901", "9223372036.854775807",
		"2562047.788015215", "1.0000000000000001", "0.3333333333333333333", "123.456", "0.9999999999999999999",
		".000001", "1.", "0.7", "2562047.7880152155", "0.29", "1.15", "8.41", "1e3", "00.5", "5.6000000000000001"}
	for i, u := range units {
		k := (uint64(1) << 63) / vals[i]
		for _, dlt := range []int64{-2, -1, 0, 1, 2} {
			for _, sg := range []string{"", "-", "+"} {
				lvcDiffOne(t, sg+strconv.FormatUint(uint64(int64(k)+dlt), 10)+u)
				lvcDiffOne(t, sg+strconv.FormatUint(uint64(int64(k)+dlt), 10)+u+"1ns")
			}
		}
		for _, f := range fracs {
			for _, sg := range []string{"", "-"} {
				lvcDiffOne(t, sg+f+u)
				lvcDiffOne(t, sg+"1h"+f+u)
			}
		}
	}
	for _, s := range []string{"", "0", "+0", "-0", "1", ".", "-.s", ".s", "1h2m3.5s", "1h1h", "9223372036854775807ns", "9223372036854775808ns",
		"-9223372036854775808ns", "-9223372036854775809ns", "1.5.5s", "3000000h", "0.100000000000000000000h", "1 s", "s", "\x80s", "1\x00s", "1hh"} {
		lvcDiffOne(t, s)
	}
	alpha := []string{"0", "1", "2", "9", ".", "-", "+", "h", "m", "s", "n", "u", "µ"}
	var rec func(p string, n int)
	rec = func(p string, n int) {
		lvcDiffOne(t, p)
		if n == 0 {
			return
		}
		for _, a := range alpha {
			rec(p+a, n-1)
		}
	}
	rec("", 4)
	rnd := rand.New(rand.NewSource(20))
	for i := 0; i < 200000; i++ {
		var b strings.Builder
		if rnd.Intn(4) == 0 {
			b.WriteString([]string{"-", "+"}[rnd.Intn(2)])
		}
		for n := 1 + rnd.Intn(3); n > 0; n-- {
			if rnd.Intn(5) > 0 {
				b.WriteString(strconv.FormatUint(rnd.Uint64()>>uint(rnd.Intn(64)), 10))
			}
			if rnd.Intn(2) == 0 {
				b.WriteString(".")
				for k := rnd.Intn(22); k > 0; k-- {
					b.WriteByte(byte('0' + rnd.Intn(10)))
				}
			}
			b.WriteString(units[rnd.Intn(len(units))])
		}
		lvcDiffOne(t, b.String())
	}
}
`

var admitsRe = regexp.MustCompile(`specAdmits\(([^,]+),\s*([^)]+(?:\([^)]*\))?)\)`)

// modelLookup finds a value by exact term or by "<prefix>!n" symbol prefix.
func modelLookup(vals map[string]string, key string) (string, bool) {
	if v, ok := vals[key]; ok {
		return v, true
	}
	for k, v := range vals {
		if strings.HasPrefix(k, key+"!") {
			return v, true
		}
	}
	return "", false
}

func modelField(vals map[string]string, field string) (string, bool) {
	for k, v := range vals {
		if strings.Contains(k, "Entry."+field+"@0") {
			return v, true
		}
	}
	return "", false
}

// replayLoggerGate replays a failed C01 gate/emit clause of a logging entry point:
// build a logger with the model's level, call the real entry point with recording
// writers and compare "something was written" with the spec function specAdmits
// evaluated in Go on the same state.
func replayLoggerGate(P *Program, dir string, r *FuncResult, o *Obligation, vals map[string]string, log *strings.Builder) string {
	if !strings.HasPrefix(o.Label, "C01.gate") && !strings.HasPrefix(o.Label, "C01.emit") {
		return ""
	}
	fn := r.ctx.fn
	m := admitsRe.FindStringSubmatch(o.Src)
	if m == nil {
		return ""
	}
	sev := strings.TrimSpace(m[2])
	sig := fn.Signature
	isMethod := sig.Recv() != nil
	level := "0"
	if isMethod {
		if v, ok := modelField(vals, "level"); ok {
			if iv, ok := smtInt(v); ok {
				level = iv
			}
		}
	} else {
		// package-level function: the default logger's level; any Entry.level select in the model
		if v, ok := modelField(vals, "level"); ok {
			if iv, ok := smtInt(v); ok {
				level = iv
			}
		}
	}
	debug := "false"
	for k, v := range vals {
		if strings.Contains(k, "ghost.debugMode@0") && strings.TrimSpace(v) == "true" {
			debug = "true"
		}
	}
	// arguments by parameter shape
	var args []string
	sevExpr := sev
	for _, p := range fn.Params {
		if isMethod && p == fn.Params[0] {
			continue
		}
		ts := types.TypeString(p.Type(), func(*types.Package) string { return "" })
		switch {
		case ts == "context.Context" || strings.HasSuffix(ts, "Context"):
			args = append(args, "context.Background()")
		case ts == "Level":
			v, _ := modelLookup(vals, "p_"+p.Name())
			iv, ok := smtInt(v)
			if !ok {
				iv = "0"
			}
			args = append(args, "Level("+iv+")")
			if sev == p.Name() {
				sevExpr = "Level(" + iv + ")"
			}
		case strings.HasSuffix(ts, "slog.Level") || ts == "logslog.Level":
			v, _ := modelLookup(vals, "p_"+p.Name())
			iv, ok := smtInt(v)
			if !ok {
				iv = "0"
			}
			args = append(args, "logslog.Level("+iv+")")
			sevExpr = strings.ReplaceAll(sevExpr, "("+p.Name()+")", "(logslog.Level("+iv+"))")
		case ts == "string":
			args = append(args, `"lvc replay message"`)
		case ts == "int":
			v, _ := modelLookup(vals, "p_"+p.Name())
			iv, ok := smtInt(v)
			if !ok {
				iv = "0"
			}
			args = append(args, iv)
		case strings.HasPrefix(ts, "[]"):
			// variadic tail: nothing
		default:
			fmt.Fprintf(log, "replay(C01): parameter %s of type %s not renderable\n", p.Name(), ts)
			return ""
		}
	}
	call := ""
	if isMethod {
		call = "e." + fn.Name() + "(" + strings.Join(args, ", ") + ")"
	} else {
		call = fn.Name() + "(" + strings.Join(args, ", ") + ")"
	}
	src := fmt.Sprintf(`package slog

// Replay of failed obligation %s
// (generated by lvc from the solver model; injected with go test -overlay)

import (
	"bytes"
	"context"
	logslog "log/slog"
	"testing"

	"github.com/hedzr/is"
)

var _ = context.Background
var _ = logslog.LevelInfo

func TestLvcReplay(t *testing.T) {
	saveDbg := is.DebugMode()
	defer is.SetDebugMode(saveDbg)
	saveDef := Default()
	defer SetDefault(saveDef)
	defer func() {
		if r := recover(); r != nil {
			t.Fatalf("REPRODUCED: panic: %%v", r)
		}
	}()
	l := newDetachedLogger("lvc-replay")
	e := l.Entry
	var out bytes.Buffer
	e.SetWriter(&out)
	e.SetErrorWriter(&out)
	e.level = Level(%s)
	SetDefault(l)
	is.SetDebugMode(%s)
	ghost.debugMode = is.DebugMode()
	want := specAdmits(e.level, %s)
	%s
	got := out.Len() > 0
	if got != want {
		t.Fatalf("REPRODUCED: %s on a logger with level %%v (debug mode %%v): output produced = %%v, admission rule says %%v; output %%q", e.level, ghost.debugMode, got, want, out.String())
	}
}
`, o.Name, level, debug, sevExpr, call, fn.Name())
	return P.runReplay(dir, fn, o, src, log)
}
