package vc

import (
	"fmt"
	"go/ast"
	"go/parser"
	"go/types"
	"os"
	"regexp"
	"strconv"
	"strings"
	"sync"
)

// Clause is one labelled contract expression.
type Clause struct {
	Label string   // e.g. "C01.gate"
	Props []string // e.g. ["C01"]
	Src   string
	Expr  ast.Expr
	File  string
	Line  int
}

type Effect struct {
	Target string // ghost.<name>
	Src    string
	Expr   ast.Expr
}

type LoopSpec struct {
	Invariants []*Clause
	Decreases  *Clause
}

type Contract struct {
	Name           string // function name relative to its package, e.g. "(*Entry).Info"
	PkgPath        string
	External       bool // declared with "ext": assumed, body never verified
	Trusted        bool // in-package function whose contract is assumed (listed in evidence)
	Inline         bool
	Requires       []*Clause
	Ensures        []*Clause
	Assigns        []*Clause
	HasAssigns     bool
	AssignsAll     bool
	Auto           bool // "auto": requires every pointer-to-struct parameter to be non-nil
	NoGhost        bool // with "assigns everything": the ghost variables are nevertheless unchanged
	Effects        []*Effect
	Panics         *Clause // "panics when e"
	Exits          *Clause // "exits when e"
	MayPanic       bool    // panic/exit behaviour unspecified
	NoSafety       bool    // no safety obligations are generated for the body (paths that panic are not compared)
	NoReturn       bool
	Keeps          []string
	SkipInv        []string
	NoKeeps        []string
	PostEffects    []*Effect // ghost assignments made at each call site after the call returned (may mention result)
	LoopAll        []*Clause // invariants of every loop of the function (auto contracts)
	Dispatch       bool
	DispatchIfaces []string
	IgnoreDefer    bool
	Loops          map[int]*LoopSpec
	Props          []string
	Asserts        []*AtClause
	Equiv          string
	Fd             string // "entry" => fd == 0
	File           string
	Line           int
}

// AtClause: assertion attached to a program point: "at panic", "at exit", "at call <callee>".
type AtClause struct {
	Where  string
	Clause *Clause
	Effect *Effect // ghost statement instead of an assertion
	Maybe  bool    // the call site need not exist
}

var labelRe = regexp.MustCompile(`^\[([A-Za-z0-9_.,\- ]+)\]\s*`)
var propRe = regexp.MustCompile(`C[0-9]{2,3}`)

func parseClause(file string, line int, text string) (*Clause, error) {
	cl := &Clause{File: file, Line: line}
	text = strings.TrimSpace(text)
	if m := labelRe.FindStringSubmatch(text); m != nil {
		cl.Label = strings.TrimSpace(m[1])
		cl.Props = propRe.FindAllString(cl.Label, -1)
		text = text[len(m[0]):]
	}
	cl.Src = text
	e, err := parser.ParseExpr(text)
	if err != nil {
		return nil, fmt.Errorf("%s:%d: cannot parse %q: %v", file, line, text, err)
	}
	cl.Expr = e
	return cl, nil
}

var typedQuantRe = regexp.MustCompile(`\b(?:forall|exists)\(\s*\w+\s*,\s*((?:\*|map\[)[^,]*),`)
var rtypedNames = map[string]bool{}
var rtypedMu sync.Mutex

// rtyped: is t one of the reference types some typed quantifier ranges over?
func rtyped(t types.Type) bool {
	if t == nil {
		return false
	}
	switch t.Underlying().(type) {
	case *types.Pointer, *types.Map:
	default:
		return false
	}
	s := types.TypeString(types.Unalias(t), func(p *types.Package) string {
		if p.Path() == rootPkg {
			return ""
		}
		return p.Name()
	})
	rtypedMu.Lock()
	defer rtypedMu.Unlock()
	if rtypedNames[s] {
		if _, isMap := t.Underlying().(*types.Map); isMap {
			rtypedMapLeaves["M:"+typeName(t)+".has"] = true
		}
		return true
	}
	return false
}

// rtypedMapLeaves: ".has" components of the map types typed quantifiers range over
var rtypedMapLeaves = map[string]bool{}

func rtypedMapLeaf(leaf string) bool {
	rtypedMu.Lock()
	defer rtypedMu.Unlock()
	return rtypedMapLeaves[leaf]
}

// ParseContractFile reads //@ clauses from a Go (or .lvc) file.
func ParseContractFile(path, pkgPath string) ([]*Contract, error) {
	return ParseContractFileOverlay(path, pkgPath, nil)
}

// ParseContractFileOverlay reads a contract file from the overlay (generated files) or from disk.
func ParseContractFileOverlay(path, pkgPath string, overlay map[string][]byte) ([]*Contract, error) {
	data, ok := overlay[path]
	if !ok {
		var err error
		data, err = os.ReadFile(path)
		if err != nil {
			return nil, err
		}
	}
	// reference types that typed quantifiers range over: their objects carry a type mark (rtype)
	for _, m := range typedQuantRe.FindAllStringSubmatch(string(data), -1) {
		rtypedMu.Lock()
		rtypedNames[strings.TrimSpace(m[1])] = true
		rtypedMu.Unlock()
	}
	var out []*Contract
	var cur *Contract
	lines := strings.Split(string(data), "\n")
	for i := 0; i < len(lines); i++ {
		ln := strings.TrimSpace(lines[i])
		if !strings.HasPrefix(ln, "//@") {
			continue
		}
		body := strings.TrimSpace(ln[3:])
		// continuation lines: "//@ |"
		for i+1 < len(lines) {
			nx := strings.TrimSpace(lines[i+1])
			if strings.HasPrefix(nx, "//@") && strings.HasPrefix(strings.TrimSpace(nx[3:]), "|") {
				body += " " + strings.TrimSpace(strings.TrimSpace(nx[3:])[1:])
				i++
				continue
			}
			break
		}
		if body == "" || strings.HasPrefix(body, "#") {
			continue
		}
		lineNo := i + 1
		kw, rest := splitWord(body)
		switch kw {
		case "assume-nonnil-dynamic":
			// a pointer type whose typed nil never occurs inside an interface value (stated assumption)
			out = append(out, &Contract{Name: "$nonnil", PkgPath: strings.TrimSpace(rest), File: path, Line: lineNo})
			cur = nil
			continue
		case "invariant":
			// package invariant: assumed at every function entry and after every call, checked at every return
			cl, err := parseClause(path, lineNo, rest)
			if err != nil {
				return nil, err
			}
			out = append(out, &Contract{Name: "$invariant", PkgPath: pkgPath, Requires: []*Clause{cl}, File: path, Line: lineNo})
			cur = nil
			continue
		case "func", "ext":
			cur = &Contract{Name: rest, PkgPath: pkgPath, External: kw == "ext", Loops: map[int]*LoopSpec{}, File: path, Line: lineNo}
			if kw == "ext" {
				cur.PkgPath = ""
			} else if i := strings.Index(rest, "::"); i > 0 {
				// contract on a function of another package (e.g. the reference implementation bytes::(*Buffer).Len)
				cur.PkgPath, cur.Name = rest[:i], rest[i+2:]
			}
			out = append(out, cur)
			continue
		}
		if cur == nil {
			return nil, fmt.Errorf("%s:%d: clause outside func", path, lineNo)
		}
		switch kw {
		case "requires":
			cl, err := parseClause(path, lineNo, rest)
			if err != nil {
				return nil, err
			}
			cur.Requires = append(cur.Requires, cl)
		case "ensures":
			cl, err := parseClause(path, lineNo, rest)
			if err != nil {
				return nil, err
			}
			cur.Ensures = append(cur.Ensures, cl)
		case "assigns":
			cur.HasAssigns = true
			if strings.TrimSpace(rest) == "nothing" {
				continue
			}
			if strings.TrimSpace(rest) == "everything" {
				cur.AssignsAll = true
				continue
			}
			for _, it := range splitTop(rest) {
				cl, err := parseClause(path, lineNo, it)
				if err != nil {
					return nil, err
				}
				cur.Assigns = append(cur.Assigns, cl)
			}
		case "posteffect":
			parts := strings.SplitN(rest, "=", 2)
			if len(parts) != 2 {
				return nil, fmt.Errorf("%s:%d: bad posteffect", path, lineNo)
			}
			e, err := parser.ParseExpr(strings.TrimSpace(parts[1]))
			if err != nil {
				return nil, fmt.Errorf("%s:%d: %v", path, lineNo, err)
			}
			cur.PostEffects = append(cur.PostEffects, &Effect{Target: strings.TrimSpace(parts[0]), Src: rest, Expr: e})
		case "effect":
			parts := strings.SplitN(rest, "=", 2)
			if len(parts) != 2 {
				return nil, fmt.Errorf("%s:%d: bad effect", path, lineNo)
			}
			e, err := parser.ParseExpr(strings.TrimSpace(parts[1]))
			if err != nil {
				return nil, fmt.Errorf("%s:%d: %v", path, lineNo, err)
			}
			cur.Effects = append(cur.Effects, &Effect{Target: strings.TrimSpace(parts[0]), Src: rest, Expr: e})
		case "keeps":
			// with "assigns everything": these struct fields of objects that exist at call time are unchanged
			for _, it := range splitTop(rest) {
				cur.Keeps = append(cur.Keeps, strings.TrimSpace(it))
			}
		case "nokeeps":
			// (auto contracts) this function does write the named default-kept field
			for _, it := range splitTop(rest) {
				cur.NoKeeps = append(cur.NoKeeps, strings.TrimSpace(it))
			}
		case "skipinvariant":
			// (package initializer) this invariant is established elsewhere - by an init function run through
			// sync.Once - and checked there
			cur.SkipInv = append(cur.SkipInv, strings.Fields(rest)...)
		case "dispatch":
			// interface method calls in this function are resolved to in-package implementers under contract
			cur.Dispatch = true
			// dispatch I1 I2: additionally resolve calls through these interfaces of the root package
			cur.DispatchIfaces = append(cur.DispatchIfaces, strings.Fields(rest)...)
		case "noghost":
			cur.NoGhost = true
		case "ignoredefer":
			cur.IgnoreDefer = true
		case "auto":
			// synthesized frame: may write anything except ghost state; pointer parameters are non-nil
			cur.Auto = true
			cur.AssignsAll = true
			cur.HasAssigns = true
			cur.NoGhost = true
		case "maypanic":
			cur.MayPanic = true
		case "nosafety":
			// run-time panics are outside this contract (lockstep products: panic freedom is the business of
			// the real functions' own contracts); a panicking path is simply not compared
			cur.MayPanic = true
			cur.NoSafety = true
		case "panics", "exits":
			w, r2 := splitWord(strings.TrimSpace(rest))
			lbl := ""
			if strings.HasPrefix(w, "[") {
				lbl = w + " "
				w, r2 = splitWord(r2)
			}
			if w != "when" {
				return nil, fmt.Errorf("%s:%d: expected '%s when'", path, lineNo, kw)
			}
			cl, err := parseClause(path, lineNo, lbl+r2)
			if err != nil {
				return nil, err
			}
			if kw == "panics" {
				cur.Panics = cl
			} else {
				cur.Exits = cl
			}
		case "noreturn":
			cur.NoReturn = true
		case "loop":
			ns, r2 := splitWord(rest)
			n, err := strconv.Atoi(ns)
			if err != nil {
				return nil, fmt.Errorf("%s:%d: loop ordinal: %v", path, lineNo, err)
			}
			k, r3 := splitWord(r2)
			ls := cur.Loops[n]
			if ls == nil {
				ls = &LoopSpec{}
				cur.Loops[n] = ls
			}
			cl, err := parseClause(path, lineNo, r3)
			if err != nil {
				return nil, err
			}
			switch k {
			case "assume-nonnil-dynamic":
				// a pointer type whose typed nil never occurs inside an interface value (stated assumption)
				out = append(out, &Contract{Name: "$nonnil", PkgPath: strings.TrimSpace(rest), File: path, Line: lineNo})
				cur = nil
				continue
			case "invariant":
				ls.Invariants = append(ls.Invariants, cl)
			case "decreases":
				ls.Decreases = cl
			default:
				return nil, fmt.Errorf("%s:%d: loop clause %q", path, lineNo, k)
			}
		case "props":
			cur.Props = append(cur.Props, strings.Fields(rest)...)
		case "trusted":
			cur.Trusted = true
		case "inline":
			cur.Inline = true
		case "fd":
			cur.Fd = strings.TrimSpace(rest)
		case "equiv":
			cur.Equiv = strings.TrimSpace(rest)
		case "at":
			w, r2 := splitWord(rest)
			where := w
			maybe := false
			if w == "maybe-call" {
				// like "call", but the call site need not exist (the clause constrains it if it does)
				w, maybe = "call", true
			}
			if w == "call" {
				var callee string
				callee, r2 = splitWord(r2)
				// instances of generic functions have a space inside their brackets
				for strings.Count(callee, "[") > strings.Count(callee, "]") && r2 != "" {
					var more string
					more, r2 = splitWord(r2)
					callee += " " + more
				}
				where = "call " + callee
			}
			k, r3 := splitWord(r2)
			if k == "effect" {
				// ghost statement executed just before the call: "at call X effect ghost.v = e"
				parts := strings.SplitN(r3, "=", 2)
				if len(parts) != 2 {
					return nil, fmt.Errorf("%s:%d: bad at-call effect", path, lineNo)
				}
				e, err := parser.ParseExpr(strings.TrimSpace(parts[1]))
				if err != nil {
					return nil, fmt.Errorf("%s:%d: %v", path, lineNo, err)
				}
				cur.Asserts = append(cur.Asserts, &AtClause{Where: where, Effect: &Effect{Target: strings.TrimSpace(parts[0]), Src: r3, Expr: e},
					Clause: &Clause{Src: "effect " + r3, File: path, Line: lineNo}})
				continue
			}
			if k != "assert" {
				return nil, fmt.Errorf("%s:%d: expected 'assert' after at-location", path, lineNo)
			}
			cl, err := parseClause(path, lineNo, r3)
			if err != nil {
				return nil, err
			}
			cur.Asserts = append(cur.Asserts, &AtClause{Where: where, Clause: cl, Maybe: maybe})
		default:
			return nil, fmt.Errorf("%s:%d: unknown clause keyword %q", path, lineNo, kw)
		}
	}
	return out, nil
}

func splitWord(s string) (string, string) {
	s = strings.TrimSpace(s)
	i := strings.IndexAny(s, " \t")
	if i < 0 {
		return s, ""
	}
	return s[:i], strings.TrimSpace(s[i:])
}

// splitTop splits on commas not nested in brackets.
func splitTop(s string) []string {
	var out []string
	d := 0
	last := 0
	for i, r := range s {
		switch r {
		case '(', '[', '{':
			d++
		case ')', ']', '}':
			d--
		case ',':
			if d == 0 {
				out = append(out, strings.TrimSpace(s[last:i]))
				last = i + 1
			}
		}
	}
	if strings.TrimSpace(s[last:]) != "" {
		out = append(out, strings.TrimSpace(s[last:]))
	}
	return out
}

func (c *Contract) hasProp(p string) bool {
	if p == "C09" && c.Auto {
		// every function of the formatting sweep carries C09's "no package-level state is written" frame
		return true
	}
	for _, x := range c.Props {
		if x == p {
			return true
		}
	}
	for _, cl := range c.allClauses() {
		for _, x := range cl.Props {
			if x == p {
				return true
			}
		}
	}
	return false
}

func (c *Contract) allClauses() []*Clause {
	var out []*Clause
	out = append(out, c.Requires...)
	out = append(out, c.Ensures...)
	if c.Panics != nil {
		out = append(out, c.Panics)
	}
	if c.Exits != nil {
		out = append(out, c.Exits)
	}
	for _, l := range c.Loops {
		out = append(out, l.Invariants...)
		if l.Decreases != nil {
			out = append(out, l.Decreases)
		}
	}
	for _, a := range c.Asserts {
		if a.Effect == nil {
			out = append(out, a.Clause)
		}
	}
	return out
}
