package vc

// Rename tolerance. Contracts live in separate files and name parameters and local variables of the functions
// they are about (loop invariants have to). A maintainer who renames such a variable would break the clause
// although nothing about the code's behaviour changed. To keep renamings harmless a table of the parameters
// and named locals of every function under contract (name, type, in order of declaration) is recorded when
// contracts are written (`lvc locals > engine/externals/locals.json`, committed). When a clause mentions a
// name the function no longer has, and the function still has the same number of parameters and locals with
// the same types in the same order, the name is read as the variable that now stands at its recorded position.
// The table is only a fallback: names that still exist are never remapped.

import (
	"encoding/json"
	"go/types"
	"os"
	"path/filepath"
	"sort"

	"golang.org/x/tools/go/ssa"
)

type localEntry struct {
	Kind string `json:"kind"` // "param" or "local"
	Name string `json:"name"`
	Type string `json:"type"`
}

func localsOf(fn *ssa.Function) []localEntry {
	var out []localEntry
	q := func(p *types.Package) string { return p.Path() }
	for _, p := range fn.Params {
		out = append(out, localEntry{"param", p.Name(), types.TypeString(p.Type(), q)})
	}
	for _, b := range fn.Blocks {
		for _, in := range b.Instrs {
			if al, ok := in.(*ssa.Alloc); ok && al.Comment != "" {
				out = append(out, localEntry{"local", al.Comment, types.TypeString(al.Type(), q)})
			}
		}
	}
	return out
}

// LocalsTable lists the parameters and named locals of every function under contract in the current tree.
func (P *Program) LocalsTable() map[string][]localEntry {
	out := map[string][]localEntry{}
	var keys []string
	for k, c := range P.Contracts {
		if c.External {
			continue
		}
		keys = append(keys, k)
	}
	sort.Strings(keys)
	for _, k := range keys {
		if fn := P.funcs[k]; fn != nil {
			out[k] = localsOf(fn)
		}
	}
	return out
}

func (P *Program) loadLocals(extDir string) {
	P.Locals = map[string][]localEntry{}
	data, err := os.ReadFile(filepath.Join(extDir, "locals.json"))
	if err != nil {
		return
	}
	_ = json.Unmarshal(data, &P.Locals)
}

// renamedTo: name is not a variable of fn any more; if the recorded table says which position it had and the
// function's variables still line up with the table, the present name at that position ("" otherwise).
func (P *Program) renamedTo(fn *ssa.Function, name string) string {
	if fn == nil {
		return ""
	}
	table := P.Locals[P.fnKey(fn)]
	if len(table) == 0 {
		return ""
	}
	cur := localsOf(fn)
	if len(cur) != len(table) {
		return ""
	}
	recorded := map[string]bool{}
	for i := range table {
		if table[i].Kind != cur[i].Kind || table[i].Type != cur[i].Type {
			return ""
		}
		recorded[table[i].Name] = true
	}
	for i := range table {
		if table[i].Name == name && cur[i].Name != name && !recorded[cur[i].Name] {
			return cur[i].Name
		}
	}
	return ""
}
