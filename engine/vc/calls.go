package vc

import (
	"fmt"
	"go/ast"
	"go/token"
	"go/types"
	"sort"
	"strings"

	"golang.org/x/tools/go/ssa"
)

// execCall handles every form of call instruction.
func (c *Ctx) execCall(fr *Frame, st *State, x *ssa.Call) (*Val, []*exitInfo) {
	cc := x.Common()
	var args []*Val
	for _, a := range cc.Args {
		args = append(args, c.val(fr, st, a))
	}
	rt := x.Type()
	if cc.IsInvoke() {
		recv := c.val(fr, st, cc.Value)
		return c.invoke(fr, st, x, recv, cc.Method, args, rt)
	}
	switch f := cc.Value.(type) {
	case *ssa.Builtin:
		return c.builtin(fr, st, x, f.Name(), args, cc.Args, rt), nil
	case *ssa.Function:
		return c.staticCall(fr, st, x, f, args, rt)
	case *ssa.MakeClosure:
		fn := f.Fn.(*ssa.Function)
		if c.prog.isLogg(fn) && len(fn.Blocks) > 0 && fr.depth < maxInlineDepth {
			return c.inlineCall(fr, st, x, fn, args, c.val(fr, st, f), rt)
		}
	}
	// dynamic call through a function value
	fv := c.val(fr, st, cc.Value)
	if name := funcValueName(cc.Value); name != "" && fr == c.topFrame {
		c.atDynCallAsserts(fr, st, x, name, args)
	}
	if ci := c.closures[fv.Term]; ci != nil && c.prog.isLogg(ci.fn) && fr.depth < maxInlineDepth {
		return c.inlineClosure(fr, st, x, ci, args, rt)
	}
	c.safety(fr, "nil-func-call "+exprText(fr, x), x, not(eq(fv.Term, "0")))
	return c.defaultExternal(fr, st, "dynamic call "+shortTypeName(cc.Value.Type()), args, rt), nil
}

func (c *Ctx) staticCall(fr *Frame, st *State, site ssa.Instruction, fn *ssa.Function, args []*Val, rt types.Type) (*Val, []*exitInfo) {
	if con := c.prog.ContractOf(fn); con != nil && !con.Inline {
		return c.contractCall(fr, st, site, fn, con, args, rt)
	}
	// compiler generated wrappers are transparent
	if fn.Synthetic != "" && len(fn.Blocks) > 0 && !strings.HasPrefix(fn.Synthetic, "instance of") && !strings.HasPrefix(fn.Synthetic, "package initializer") {
		if fr.depth < maxInlineDepth+2 {
			return c.inlineCall(fr, st, site, fn, args, nil, rt)
		}
	}
	if h, ok := externalModels[fn.String()]; ok {
		return h(c, fr, st, site, args, rt), nil
	}
	if c.prog.isLogg(fn) && len(fn.Blocks) > 0 {
		rec := false
		for _, f := range fr.stack {
			if f == fn {
				rec = true
			}
		}
		if !rec && fr.depth < maxInlineDepth {
			c.inlined[c.relName(fn)] = true
			return c.inlineCall(fr, st, site, fn, args, nil, rt)
		}
		c.unsupported("call of %s without contract (recursive or too deep to inline)", c.relName(fn))
	}
	return c.defaultExternal(fr, st, fn.String(), args, rt), nil
}

// inlineCall splices the callee body (no contract: not modular, recorded in evidence).
func (c *Ctx) inlineCall(fr *Frame, st *State, site ssa.Instruction, fn *ssa.Function, args []*Val, closure *Val, rt types.Type) (*Val, []*exitInfo) {
	nf := c.newFrame(fn, fr)
	nf.inlined = true
	if fn.Synthetic != "" {
		nf.fd = fr.fd // wrappers are elided from the logical stack
		nf.inlined = fr.inlined
	}
	for i, p := range fn.Params {
		if i < len(args) {
			nf.vals[p] = args[i]
			nf.params = append(nf.params, args[i])
		}
	}
	if closure != nil {
		if ci := c.closures[closure.Term]; ci != nil {
			for i, fv := range fn.FreeVars {
				if i < len(ci.bindings) {
					nf.vals[fv] = ci.bindings[i]
				}
			}
		}
	}
	nf.old = st.clone()
	// "at call X assert" clauses of the function under verification apply to spliced callees too
	c.atCallAsserts(fr, st, site, fn, c.calleeEnv(fr, fn, fn.Signature, paramNames(fn), st, st, args, nf.fd))
	exits := c.execBody(nf, st, c.curReach)
	return c.joinInlined(fr, st, exits, rt)
}

func (c *Ctx) inlineClosure(fr *Frame, st *State, site ssa.Instruction, ci *closureInfo, args []*Val, rt types.Type) (*Val, []*exitInfo) {
	fn := ci.fn
	nf := c.newFrame(fn, fr)
	nf.inlined = true
	for i, p := range fn.Params {
		if i < len(args) {
			nf.vals[p] = args[i]
			nf.params = append(nf.params, args[i])
		}
	}
	for i, fv := range fn.FreeVars {
		if i < len(ci.bindings) {
			nf.vals[fv] = ci.bindings[i]
		}
	}
	nf.old = st.clone()
	exits := c.execBody(nf, st, c.curReach)
	return c.joinInlined(fr, st, exits, rt)
}

// joinInlined merges the normal returns of an inlined body back into st.
func (c *Ctx) joinInlined(fr *Frame, st *State, exits []*exitInfo, rt types.Type) (*Val, []*exitInfo) {
	var rets, others []*exitInfo
	for _, e := range exits {
		if e.kind == "return" {
			rets = append(rets, e)
		} else {
			others = append(others, e)
		}
	}
	if len(rets) == 0 {
		c.curReach = "false"
		return c.zeroOrFresh(rt), others
	}
	sts := make([]*State, len(rets))
	conds := make([]string, len(rets))
	for i, e := range rets {
		sts[i] = e.st
		conds[i] = e.reach
	}
	m := c.mergeStates(sts, conds)
	st.regs, st.heap, st.epoch, st.pepoch = m.regs, m.heap, m.epoch, m.pepoch
	reach := or(conds...)
	if len(reach) > 30 && c.quant == 0 {
		r := c.fresh("reach_ret", "Bool")
		c.assumeAlways(eq(r, reach))
		reach = r
	}
	c.curReach = reach
	var res *Val
	nres := len(rets[0].results)
	switch {
	case nres == 0:
		res = &Val{T: rt}
	case nres == 1:
		vs := make([]*Val, len(rets))
		for i, e := range rets {
			vs[i] = e.results[0]
		}
		res = c.mergeVals(vs, conds, "ret")
	default:
		res = &Val{T: rt}
		for k := 0; k < nres; k++ {
			vs := make([]*Val, len(rets))
			for i, e := range rets {
				vs[i] = e.results[k]
			}
			res.Fs = append(res.Fs, c.mergeVals(vs, conds, "ret"))
		}
	}
	return res, others
}

func (c *Ctx) zeroOrFresh(rt types.Type) *Val {
	if tt, ok := rt.(*types.Tuple); ok && tt.Len() == 0 {
		return &Val{T: rt}
	}
	return c.freshVal(rt, "noret")
}

// ---------- modular call against a contract ----------

func (c *Ctx) calleeEnv(fr *Frame, fn *ssa.Function, sig *types.Signature, pnames []string, st, old *State, args []*Val, fd string) *Env {
	env := &Env{c: c, fr: fr, fn: fn, st: st, old: old, vars: map[string]*Val{}, fd: fd}
	for i, n := range pnames {
		if i < len(args) {
			env.vars[n] = args[i]
		}
	}
	return env
}

func paramNames(fn *ssa.Function) []string {
	var out []string
	for _, p := range fn.Params {
		out = append(out, p.Name())
	}
	return out
}

func (c *Ctx) bindResults(env *Env, sig *types.Signature, res *Val) {
	n := sig.Results().Len()
	switch {
	case n == 1:
		env.vars["result"] = res
		if nm := sig.Results().At(0).Name(); nm != "" && nm != "_" {
			env.vars[nm] = res
		}
	case n > 1:
		for i := 0; i < n; i++ {
			if res.Fs != nil && i < len(res.Fs) {
				env.vars[fmt.Sprintf("result%d", i)] = res.Fs[i]
				if nm := sig.Results().At(i).Name(); nm != "" && nm != "_" {
					env.vars[nm] = res.Fs[i]
				}
			}
		}
	}
}

func (c *Ctx) contractCall(fr *Frame, st *State, site ssa.Instruction, fn *ssa.Function, con *Contract, args []*Val, rt types.Type) (*Val, []*exitInfo) {
	callee := c.relName(fn)
	caller := c.relName(fr.fn)
	fd := c.defineIntQ("fd", app("+", fr.fd, "1"))
	if fn.Synthetic != "" {
		fd = fr.fd
	}
	// ghost statements attached to this call site run before the call
	c.atCallEffects(fr, st, site, fn, c.calleeEnv(fr, fn, fn.Signature, paramNames(fn), st, st, args, fd))
	pre := st.clone()
	env := c.calleeEnv(fr, fn, fn.Signature, paramNames(fn), pre, pre, args, fd)
	if con.External || con.Trusted {
		c.assumed["assumed contract: "+con.Name] = true
	} else if k := c.prog.fnKey(fn); c.prog.funcs[k] == fn {
		c.uses[k] = true
	}
	for _, rq := range con.Requires {
		g := env.evalTop(rq)
		c.oblige("pre", fmt.Sprintf("%s#call[%s].pre[%s]", caller, callee, lbl(rq)), rq.Label, rq.Props, g.Term, site.Pos(), rq.Src)
		c.assume(g.Term)
	}
	c.atCallAsserts(fr, st, site, fn, env)
	if con.Fd == "entry" && c.topFrame != nil && c.topFrame.con != nil && c.topFrame.con.Fd != "" {
		// an entry point captures the program counter of ITS caller as the user's statement: called from
		// inside the library (from a function that itself tracks its distance from the user's statement) it
		// would attribute the record to library code
		c.oblige("pre", fmt.Sprintf("%s#call[%s].pre[fd]", caller, callee), "C14.fd", []string{"C14"}, eq(fd, "0"), site.Pos(), "an entry point is called from user code only (fd == 0)")
	}
	if con.Fd != "" && con.Fd != "entry" {
		// the callee assumes a fixed distance from the user's call statement
		c.oblige("pre", fmt.Sprintf("%s#call[%s].pre[fd]", caller, callee), "C14.fd", []string{"C14"}, eq(fd, con.Fd), site.Pos(), "fd == "+con.Fd)
	}
	var exits []*exitInfo
	if con.Panics != nil {
		pc := env.evalTop(con.Panics)
		// the caller may only reach a panicking call if it declares so itself
		c.callMayPanic(fr, st, site, callee, pc.Term, con.Panics, "panic")
		c.assume(not(pc.Term))
	}
	if con.Exits != nil {
		pc := env.evalTop(con.Exits)
		c.callMayPanic(fr, st, site, callee, pc.Term, con.Exits, "exit")
		c.assume(not(pc.Term))
	}
	if con.MayPanic {
		if top := c.topFrame; top == nil || top.con == nil || !top.con.MayPanic {
			c.oblige("safety", fmt.Sprintf("%s#call[%s].no-panic", caller, callee), "", nil, "false", site.Pos(), "callee is declared 'maypanic' but the caller claims panic-freedom")
		}
	}
	if con.NoReturn {
		exits = append(exits, &exitInfo{kind: "exit", st: st.clone(), reach: c.curReach, site: site, fr: fr, val: firstArg(args), topBlock: c.curTopBlock, edgeFrom: c.curEdgeFrom})
		c.curReach = "false"
		return c.zeroOrFresh(rt), exits
	}
	// effects of assumed (external) contracts are definitional updates
	if con.External || con.Trusted {
		for _, ef := range con.Effects {
			c.applyEffect(env, st, ef)
		}
	}
	// frame
	var pendingKept []pendKept
	if con.AssignsAll {
		kept := c.keptLeaves(con)
		if c.dry > 0 && c.wr != nil {
			// loop dry run: a component kept "except e" counts as kept with a direct write at e (the loop
			// havoc then spares every other object), provided e can be evaluated before the call
			pairs := keptPairs(kept)
			for _, k := range kept {
				if len(k.except) == 0 {
					continue
				}
				ok := true
				var refs []string
				for _, e := range k.except {
					ex, err := parseExprCached(e)
					if err != nil || strings.Contains(e, "result") {
						ok = false
						break
					}
					v := env.evalTop(&Clause{Src: e, Expr: ex})
					refs = append(refs, v.Term)
				}
				if ok {
					pairs = append(pairs, [2]string{k.leaf, k.sort})
					for _, r := range refs {
						c.wr.addComp(k.leaf+"\x00"+k.sort, r)
					}
				}
			}
			c.wr.noteKeeps(pairs)
		}
		var keepTerms []string
		for _, k := range kept {
			keepTerms = append(keepTerms, c.H(st, k.leaf, k.sort))
		}
		nextPre := c.next(st)
		if con.NoGhost {
			c.havocEverythingButGhost(st)
		} else {
			c.havocEverything(st)
		}
		if con.NoGhost {
			// an interior pointer into a protected component (&s.attrs, &pc.buf ...) handed to the callee
			// is a location the callee may write even though the component as a whole is protected
			for _, a := range args {
				if a != nil && a.P != nil && a.P.Reg == nil && a.P.Dim > 0 && protectedLeaf(a.P.Comp) {
					if _, isPtr := a.T.Underlying().(*types.Pointer); isPtr {
						c.havocReachable(st, a)
					}
				}
			}
		}
		for i, k := range kept {
			if !strings.HasPrefix(k.sort, "(Array") {
				st.heap[k.leaf] = keepTerms[i]
				continue
			}
			c.nsym++
			name := sym(fmt.Sprintf("%s@%d_kept", k.leaf, c.nsym))
			c.declare(name, k.sort)
			st.heap[k.leaf] = name
			if len(k.except) == 0 {
				c.assumeAlways(fmt.Sprintf("(forall ((r Int)) (! (=> (< r %s) (= (select %s r) (select %s r))) :pattern ((select %s r))))", nextPre, name, keepTerms[i], name))
			} else {
				pendingKept = append(pendingKept, pendKept{k, name, keepTerms[i], nextPre})
			}
		}
		c.restoreCaptured(st, pre)
	} else {
		locs := c.assignLocs(env, con)
		c.havocLocs(st, pre, locs, "call")
	}
	// allocation frontier may advance
	nx := c.fresh("next", "Int")
	c.assumeAlways(app(">=", nx, c.next(st)))
	st.heap["$next"] = nx
	res := c.freshResult(st, rt, "r_"+fn.Name())
	post := c.calleeEnv(fr, fn, fn.Signature, paramNames(fn), st, pre, args, fd)
	c.bindResults(post, fn.Signature, res)
	for _, pk := range pendingKept {
		conds := []string{app("<", "r", pk.nextPre)}
		for _, e := range pk.k.except {
			ex, err := parseExprCached(e)
			if err != nil {
				c.unsupported("keeps except %q", e)
				continue
			}
			v := post.evalTop(&Clause{Src: e, Expr: ex})
			conds = append(conds, or(eq("r", "0"), not(eq("r", v.Term)))) // the nil reference is no object
		}
		c.assumeAlways(fmt.Sprintf("(forall ((r Int)) (! (=> %s (= (select %s r) (select %s r))) :pattern ((select %s r))))", and(conds...), pk.name, pk.old, pk.name))
	}
	for _, en := range con.Ensures {
		g := post.evalTop(en)
		c.assume(g.Term)
	}
	for _, pe := range con.PostEffects {
		c.applyEffect(post, st, pe)
	}
	if c.prog.inRoot(c.fn) && c.dry == 0 && c.pure == 0 && (con.AssignsAll || len(con.Assigns) > 0) {
		c.assumeInvariants(st)
	}
	return res, exits
}

func firstArg(a []*Val) *Val {
	if len(a) > 0 {
		return a[0]
	}
	return nil
}

func (c *Ctx) defineIntQ(hint, term string) string {
	if c.quant > 0 {
		return term
	}
	return c.defineInt(hint, term)
}

func (c *Ctx) freshResult(st *State, rt types.Type, hint string) *Val {
	if tt, ok := rt.(*types.Tuple); ok && tt.Len() == 0 {
		return &Val{T: rt}
	}
	v := c.freshVal(rt, hint)
	c.wfRefs(st, v)
	return v
}

// callMayPanic: obligation that the callee's panic condition is excluded (or covered by the caller's own).
func (c *Ctx) callMayPanic(fr *Frame, st *State, site ssa.Instruction, callee, cond string, cl *Clause, kind string) {
	caller := c.relName(fr.fn)
	top := c.topFrame
	if top != nil && top.con != nil && top.con.MayPanic {
		return
	}
	var own *Clause
	if top != nil && top.con != nil {
		own = top.con.Panics
		if kind == "exit" {
			own = top.con.Exits
		}
	}
	if own != nil {
		env := &Env{c: c, fr: top, fn: top.fn, st: top.old, old: top.old, vars: map[string]*Val{}, fd: top.fd}
		for i, p := range top.fn.Params {
			if i < len(top.params) {
				env.vars[p.Name()] = top.params[i]
			}
		}
		ov := env.evalTop(own)
		c.oblige("safety", fmt.Sprintf("%s#call[%s].%s-covered", caller, callee, kind), own.Label, own.Props, implies(cond, ov.Term), site.Pos(), "callee "+kind+"s only when the caller's '"+kind+"s when' holds: "+own.Src)
		return
	}
	// the caller's own safety: attributed to the caller's properties
	c.oblige("safety", fmt.Sprintf("%s#call[%s].no-%s", caller, callee, kind), "", nil, not(cond), site.Pos(), "callee does not "+kind+": !("+cl.Src+")")
}

// havocEverything: the callee may write any heap location, global and ghost variable.
func (c *Ctx) havocEverything(st *State) {
	next := c.next(st)
	if c.dry > 0 && c.wr != nil {
		c.wr.everything = true
	}
	c.nepoch++
	st.epoch = c.nepoch
	c.nepoch++
	st.pepoch = c.nepoch
	st.heap = map[string]string{}
	nx := c.fresh("next", "Int")
	c.assumeAlways(app(">=", nx, next))
	st.heap["$next"] = nx
	if c.epochNext == nil {
		c.epochNext = map[int]string{}
	}
	c.epochNext[st.epoch] = nx
	c.epochNext[st.pepoch] = nx
}

// ghostLeaves: every scalar leaf of the specification-only variable "ghost" of the root package.
func (c *Ctx) ghostLeaves() (names, sorts []string) {
	rp := c.prog.Pkgs[rootPkg]
	if rp == nil {
		return
	}
	g, ok := rp.Members["ghost"].(*ssa.Global)
	if !ok {
		return
	}
	et := g.Type().(*types.Pointer).Elem()
	base := "G:" + rootPkg + ".ghost"
	leaves(et, nil, func(path []int, lt types.Type) {
		n, _ := leafName(base, et, path)
		if s := sortOf(lt); s != "" {
			names = append(names, n)
			sorts = append(sorts, s)
		}
	})
	return
}

// havocEverythingButGhost: the callee may write any location except the protected components
// (contract clause "assigns everything" + "noghost" / "auto").
func (c *Ctx) havocEverythingButGhost(st *State) {
	next := c.next(st)
	if c.dry > 0 && c.wr != nil {
		c.wr.everythingUnprotected = true
	}
	keep := map[string]string{}
	for k, v := range st.heap {
		if protectedLeaf(k) {
			keep[k] = v
		}
	}
	c.nepoch++
	st.epoch = c.nepoch
	st.heap = keep
	nx := c.fresh("next", "Int")
	c.assumeAlways(app(">=", nx, next))
	st.heap["$next"] = nx
	if c.epochNext == nil {
		c.epochNext = map[int]string{}
	}
	c.epochNext[st.epoch] = nx
}

// atCallEffects runs the top-level contract's "at call <callee> effect ghost.v = e" statements.
func (c *Ctx) atCallEffects(fr *Frame, st *State, site ssa.Instruction, callee *ssa.Function, cenv *Env) {
	top := c.topFrame
	if top == nil || top.con == nil || c.pure > 0 {
		return
	}
	rel := callee.RelString(nil)
	if callee.Pkg != nil {
		rel = callee.RelString(callee.Pkg.Pkg)
	}
	for _, a := range top.con.Asserts {
		if a.Effect == nil || (a.Where != "call "+rel && a.Where != "call "+callee.String()) {
			continue
		}
		env := &Env{c: c, fr: top, fn: top.fn, st: st, old: top.old, vars: map[string]*Val{}, fd: top.fd}
		for i, p := range top.fn.Params {
			if i < len(top.params) {
				env.vars[p.Name()] = top.params[i]
			}
		}
		for k, v := range cenv.vars {
			env.vars["callee."+k] = v
		}
		c.calleeRenames(env, callee, cenv)
		c.applyEffect(env, st, a.Effect)
		c.atCallSeen[a] = true
	}
}

// atCallAsserts checks the top-level contract's "at call <callee> assert e" clauses at this call site.
func (c *Ctx) atCallAsserts(fr *Frame, st *State, site ssa.Instruction, callee *ssa.Function, cenv *Env) {
	top := c.topFrame
	if top == nil || top.con == nil || c.pure > 0 || c.dry > 0 {
		return
	}
	rel := callee.RelString(nil)
	if callee.Pkg != nil {
		rel = callee.RelString(callee.Pkg.Pkg)
	}
	for _, a := range top.con.Asserts {
		if a.Where != "call "+rel && a.Where != "call "+callee.String() {
			continue
		}
		env := &Env{c: c, fr: top, fn: top.fn, st: st, old: top.old, vars: map[string]*Val{}, fd: top.fd, cells: fr == top}
		for i, p := range top.fn.Params {
			if i < len(top.params) {
				if env.cells {
					// like a loop invariant: a parameter the body reassigns is read at its current
					// value; old(p) names the entry value
					env.vars["old:"+p.Name()] = top.params[i]
				} else {
					env.vars[p.Name()] = top.params[i]
				}
			}
		}
		for k, v := range cenv.vars {
			env.vars["callee."+k] = v
		}
		c.calleeRenames(env, callee, cenv)
		env.vars["callee.fd"] = intVal(cenv.fd)
		if a.Effect != nil {
			continue
		}
		g := env.evalTop(a.Clause)
		c.oblige("assert", fmt.Sprintf("%s#at-call[%s].assert[%s]", c.relName(top.fn), c.relName(callee), lbl(a.Clause)), a.Clause.Label, a.Clause.Props, g.Term, site.Pos(), a.Clause.Src)
		c.atCallSeen[a] = true
	}
}

// calleeRenames: a parameter of the callee that was renamed since the contracts were written is still
// reachable under its recorded name (see locals.go).
func (c *Ctx) calleeRenames(env *Env, callee *ssa.Function, cenv *Env) {
	table := c.prog.Locals[c.prog.fnKey(callee)]
	if len(table) == 0 {
		return
	}
	for i, p := range callee.Params {
		if i >= len(table) || table[i].Kind != "param" {
			return
		}
		if old := table[i].Name; old != p.Name() {
			if _, bound := env.vars["callee."+old]; !bound {
				if v, ok := cenv.vars[p.Name()]; ok {
					env.vars["callee."+old] = v
					c.prog.noteRename(callee, old, p.Name())
				}
			}
		}
	}
}

// funcValueName: the parameter or local variable a called function value is read from ("" if neither).
func funcValueName(v ssa.Value) string {
	switch x := v.(type) {
	case *ssa.Parameter:
		return x.Name()
	case *ssa.UnOp:
		if al, ok := x.X.(*ssa.Alloc); ok && x.Op == token.MUL {
			return al.Comment
		}
	}
	return ""
}

// atDynCallAsserts checks "at call <name> assert e" clauses where <name> is a function-typed parameter or local
// of the function under verification: e is evaluated at every call through it (callee.a0, callee.a1, ... are
// the arguments).
func (c *Ctx) atDynCallAsserts(fr *Frame, st *State, site ssa.Instruction, name string, args []*Val) {
	top := c.topFrame
	if top == nil || top.con == nil || c.pure > 0 || c.dry > 0 {
		return
	}
	for _, a := range top.con.Asserts {
		if a.Where != "call "+name || a.Effect != nil {
			continue
		}
		env := &Env{c: c, fr: top, fn: top.fn, st: st, old: top.old, vars: map[string]*Val{}, fd: top.fd, cells: true}
		for i, p := range top.fn.Params {
			if i < len(top.params) {
				env.vars["old:"+p.Name()] = top.params[i]
			}
		}
		for i, v := range args {
			env.vars[fmt.Sprintf("callee.a%d", i)] = v
		}
		g := env.evalTop(a.Clause)
		c.oblige("assert", fmt.Sprintf("%s#at-call[%s].assert[%s]", c.relName(top.fn), name, lbl(a.Clause)), a.Clause.Label, a.Clause.Props, g.Term, site.Pos(), a.Clause.Src)
		c.atCallSeen[a] = true
	}
}

// atInvokeAsserts checks "at call (Iface).Method assert e" clauses at an interface method call, whatever
// the dynamic type of the receiver is. The callee's parameters are named as in the interface method's
// signature (callee.self is the receiver).
func (c *Ctx) atInvokeAsserts(fr *Frame, st *State, site ssa.Instruction, recv *Val, m *types.Func, args []*Val) {
	top := c.topFrame
	if top == nil || top.con == nil || c.pure > 0 {
		return
	}
	full := "(" + typeName(recv.T) + ")." + m.Name()
	short := "(" + strings.TrimPrefix(typeName(recv.T), rootPkg+".") + ")." + m.Name()
	for _, a := range top.con.Asserts {
		if a.Where != "call "+full && a.Where != "call "+short {
			continue
		}
		if a.Effect == nil && c.dry > 0 {
			continue
		}
		env := &Env{c: c, fr: top, fn: top.fn, st: st, old: top.old, vars: map[string]*Val{}, fd: top.fd, cells: fr == top}
		for i, p := range top.fn.Params {
			if i < len(top.params) {
				env.vars[p.Name()] = top.params[i]
			}
		}
		env.vars["callee.self"] = recv
		sig := m.Type().(*types.Signature)
		for i := 0; i < sig.Params().Len() && i < len(args); i++ {
			if nm := sig.Params().At(i).Name(); nm != "" && nm != "_" {
				env.vars["callee."+nm] = args[i]
			}
			env.vars[fmt.Sprintf("callee.a%d", i)] = args[i]
		}
		if a.Effect != nil {
			c.applyEffect(env, st, a.Effect)
			c.atCallSeen[a] = true
			continue
		}
		g := env.evalTop(a.Clause)
		c.oblige("assert", fmt.Sprintf("%s#at-call[%s].assert[%s]", c.relName(top.fn), short, lbl(a.Clause)), a.Clause.Label, a.Clause.Props, g.Term, site.Pos(), a.Clause.Src)
		c.atCallSeen[a] = true
	}
}

// applyEffect executes "target = expr" on st.
func (c *Ctx) applyEffect(env *Env, st *State, ef *Effect) {
	ne := *env
	ne.st = st
	v := ne.evalTop(&Clause{Src: ef.Src, Expr: ef.Expr})
	tgt, err := parseExprCached(ef.Target)
	if err != nil {
		c.unsupported("effect target %q", ef.Target)
		return
	}
	p := ne.lvalue(tgt)
	if p == nil {
		c.unsupported("effect target %q is not assignable", ef.Target)
		return
	}
	if isUntyped(v.T) {
		v = ne.retype(v, p.Elem)
	}
	c.Store(st, p, v)
}

// ---------- default contract of unknown callees ----------

func (c *Ctx) defaultExternal(fr *Frame, st *State, name string, args []*Val, rt types.Type) *Val {
	if c.dry == 0 && c.pure == 0 {
		c.assumed["default external contract (total, no panic, writes only through its pointer/slice arguments): "+name] = true
	}
	for _, a := range args {
		c.havocReachable(st, a)
	}
	nx := c.fresh("next", "Int")
	c.assumeAlways(app(">=", nx, c.next(st)))
	if c.dry > 0 && c.wr != nil {
		c.wr.addComp("$next\x00Int", "")
	}
	st.heap["$next"] = nx
	return c.freshResult(st, rt, "ext")
}

// havocReachable havocs what an external callee could write through argument a (one level).
func (c *Ctx) havocReachable(st *State, a *Val) {
	if a == nil {
		return
	}
	for _, f := range a.Fs {
		c.havocReachable(st, f)
	}
	switch u := a.T.Underlying().(type) {
	case *types.Slice:
		if a.Term == "" {
			return
		}
		et := u.Elem()
		leaves(et, nil, func(path []int, lt types.Type) {
			ls := sortOf(lt)
			if ls == "" {
				return
			}
			leaf, _ := leafName("E:"+typeName(et), et, path)
			srt := c.compSort(ls, 2)
			c.setCompAt(st, leaf, srt, app("lref", a.Term), c.fresh("hv", "(Array Int "+ls+")"))
		})
	case *types.Pointer:
		var p *Ptr
		if a.P != nil {
			p = a.P
		} else if a.Term != "" {
			p = c.refPtr(u.Elem(), a.Term)
		}
		if p == nil {
			return
		}
		if _, isSig := u.Elem().Underlying().(*types.Signature); isSig {
			return
		}
		nv := c.freshValQuiet(p.Elem)
		if nv != nil {
			c.wfRefs(st, nv)
			c.Store(st, p, nv)
		}
	case *types.Map:
		if a.Term == "" {
			return
		}
		has, val, ks, vs := c.mapComps(u)
		c.setCompAt(st, has, "(Array Int (Array "+ks+" Bool))", a.Term, c.fresh("hv", "(Array "+ks+" Bool)"))
		c.setCompAt(st, val, "(Array Int (Array "+ks+" "+vs+"))", a.Term, c.fresh("hv", "(Array "+ks+" "+vs+")"))
		c.setCompAt(st, "M:"+typeName(u)+".len", "(Array Int Int)", a.Term, c.fresh("hv", "Int"))
	}
}

func (c *Ctx) freshValQuiet(t types.Type) *Val {
	if at, ok := t.Underlying().(*types.Array); ok {
		s := sortOf(t)
		if s == "" {
			return nil
		}
		_ = at
		return &Val{T: t, Term: c.fresh("hv", s)}
	}
	return c.freshVal(t, "hv")
}

// ---------- interface method calls ----------

func (c *Ctx) invoke(fr *Frame, st *State, site ssa.Instruction, recv *Val, m *types.Func, args []*Val, rt types.Type) (*Val, []*exitInfo) {
	it := recv.T
	c.safety(fr, "nil-iface-call "+m.Name()+" "+exprText(fr, site), site, not(eq(app("itag", recv.Term), "0")))
	c.assume(not(eq(app("itag", recv.Term), "0")))
	c.atInvokeAsserts(fr, st, site, recv, m, args)
	// dynamic dispatch: in-package implementers whose method is under contract are called through
	// that contract; every other dynamic type goes through the interface-method contract (or the default)
	cands := c.prog.implementers(it, m.Name())
	if top := c.topFrame; top == nil || top.con == nil || !(top.con.Dispatch || top.con.Auto) {
		cands = nil
	}
	// only logg's own interfaces and io.Writer are dispatched; fmt.Stringer, error, ... carry user values
	if tn := typeName(it); !(tn == rootPkg+".LogWriter" || tn == rootPkg+".LevelSettable" || tn == "io.Writer" || tn == rootPkg+".ObjectSerializer") {
		extra := false
		if top := c.topFrame; top != nil && top.con != nil {
			for _, n := range top.con.DispatchIfaces {
				if tn == rootPkg+"."+n {
					extra = true
				}
			}
		}
		if !extra {
			cands = nil
		}
	}
	if len(cands) == 0 || c.dry > 0 {
		return c.invokeExternal(fr, st, site, recv, m, args, rt)
	}
	base := c.curReach
	var sts []*State
	var conds []string
	var vals []*Val
	var exits []*exitInfo
	var notAny []string
	for _, cd := range cands {
		cond := c.typeIs(recv, cd.recvT)
		notAny = append(notAny, not(cond))
		bst := st.clone()
		c.curReach = and(base, cond)
		self := c.unbox(bst, app("ival", recv.Term), cd.recvT)
		if c.prog.NonNilDyn[typeName(cd.recvT)] && self.Term != "" {
			c.assumed["typed nil "+typeName(cd.recvT)+" never occurs inside an interface value (its own methods would panic)"] = true
			c.assume(not(eq(self.Term, "0")))
		}
		var r *Val
		var ex []*exitInfo
		if cd.con != nil {
			r, ex = c.contractCall(fr, bst, site, cd.fn, cd.con, append([]*Val{self}, args...), rt)
		} else {
			// a method promoted from an embedded field: the compiler-generated wrapper is transparent
			r, ex = c.staticCall(fr, bst, site, cd.fn, append([]*Val{self}, args...), rt)
		}
		exits = append(exits, ex...)
		if c.curReach != "false" {
			sts = append(sts, bst)
			conds = append(conds, c.curReach)
			vals = append(vals, r)
		}
	}
	est := st.clone()
	c.curReach = and(append([]string{base}, notAny...)...)
	r, ex := c.invokeExternal(fr, est, site, recv, m, args, rt)
	exits = append(exits, ex...)
	if c.curReach != "false" {
		sts = append(sts, est)
		conds = append(conds, c.curReach)
		vals = append(vals, r)
	}
	if len(sts) == 0 {
		c.curReach = "false"
		return c.zeroOrFresh(rt), exits
	}
	mst := c.mergeStates(sts, conds)
	st.regs, st.heap, st.epoch, st.pepoch = mst.regs, mst.heap, mst.epoch, mst.pepoch
	reach := or(conds...)
	if len(reach) > 30 && c.quant == 0 {
		rn := c.fresh("reach_inv", "Bool")
		c.assumeAlways(eq(rn, reach))
		reach = rn
	}
	c.curReach = reach
	var res *Val
	if tt, ok := rt.(*types.Tuple); ok && tt.Len() == 0 {
		res = &Val{T: rt}
	} else {
		res = c.mergeVals(vals, conds, "inv")
	}
	return res, exits
}

func (c *Ctx) invokeExternal(fr *Frame, st *State, site ssa.Instruction, recv *Val, m *types.Func, args []*Val, rt types.Type) (*Val, []*exitInfo) {
	it := recv.T
	// interface method contract: ext (<pkg>.<Iface>).<Method>
	key := "(" + typeName(it) + ")." + m.Name()
	all := append([]*Val{recv}, args...)
	if con := c.prog.Contracts["ext::"+key]; con != nil {
		return c.extContractCall(fr, st, site, con, m, all, rt)
	}
	return c.defaultExternal(fr, st, "invoke "+key, all, rt), nil
}

type pendKept struct {
	k                  keptLeaf
	name, old, nextPre string
}

type implCand struct {
	recvT types.Type
	fn    *ssa.Function
	con   *Contract
}

// implementers: logg methods under contract whose receiver type implements interface type it.
func (P *Program) implementers(it types.Type, method string) []implCand {
	iface, ok := it.Underlying().(*types.Interface)
	if !ok {
		return nil
	}
	P.mu.Lock()
	defer P.mu.Unlock()
	key := typeName(it) + "." + method
	if P.implCache == nil {
		P.implCache = map[string][]implCand{}
	}
	if r, ok := P.implCache[key]; ok {
		return r
	}
	var out []implCand
	var keys []string
	for k := range P.Contracts {
		keys = append(keys, k)
	}
	sort.Strings(keys)
	for _, k := range keys {
		con := P.Contracts[k]
		if con.External || con.Inline {
			continue
		}
		fn := P.funcs[k]
		if fn == nil || fn.Signature.Recv() == nil || fn.Name() != method {
			continue
		}
		rt := fn.Signature.Recv().Type()
		if types.Implements(rt, iface) {
			out = append(out, implCand{recvT: rt, fn: fn, con: con})
		}
	}
	// types of the root package that get the method by embedding a type whose method is under contract
	if rp := P.Pkgs[rootPkg]; rp != nil {
		var names []string
		for n := range rp.Members {
			names = append(names, n)
		}
		sort.Strings(names)
		for _, n := range names {
			tn, ok := rp.Members[n].(*ssa.Type)
			if !ok {
				continue
			}
			for _, rt := range []types.Type{tn.Type(), types.NewPointer(tn.Type())} {
				if _, isIface := rt.Underlying().(*types.Interface); isIface || !types.Implements(rt, iface) {
					continue
				}
				sel := P.Prog.MethodSets.MethodSet(rt).Lookup(rp.Pkg, method)
				if sel == nil || len(sel.Index()) < 2 {
					continue // declared directly on the type: handled above (or not under contract)
				}
				target := sel.Obj().(*types.Func)
				tf := P.Prog.FuncValue(target)
				if tf == nil {
					continue
				}
				if tc := P.Contracts[P.fnKey(tf)]; tc == nil || tc.External || tc.Inline {
					continue
				}
				if w := P.Prog.MethodValue(sel); w != nil {
					out = append(out, implCand{recvT: rt, fn: w, con: nil})
				}
			}
		}
	}
	P.implCache[key] = out
	return out
}

// extContractCall applies an assumed contract of an interface method: params are named self, a0, a1 ... or by signature names.
func (c *Ctx) extContractCall(fr *Frame, st *State, site ssa.Instruction, con *Contract, m *types.Func, args []*Val, rt types.Type) (*Val, []*exitInfo) {
	c.assumed["assumed contract: "+con.Name] = true
	sig := m.Type().(*types.Signature)
	names := []string{"self"}
	for i := 0; i < sig.Params().Len(); i++ {
		n := sig.Params().At(i).Name()
		if n == "" || n == "_" {
			n = fmt.Sprintf("a%d", i)
		}
		names = append(names, n)
	}
	fd := c.defineIntQ("fd", app("+", fr.fd, "1"))
	pre := st.clone()
	env := &Env{c: c, fr: fr, fn: c.fn, st: pre, old: pre, vars: map[string]*Val{}, fd: fd}
	for i, n := range names {
		if i < len(args) {
			env.vars[n] = args[i]
			env.vars[fmt.Sprintf("a%d", i-1)] = args[i]
		}
	}
	caller := c.relName(fr.fn)
	for _, rq := range con.Requires {
		g := env.evalTop(rq)
		c.oblige("pre", fmt.Sprintf("%s#call[%s].pre[%s]", caller, con.Name, lbl(rq)), rq.Label, rq.Props, g.Term, site.Pos(), rq.Src)
		c.assume(g.Term)
	}
	for _, ef := range con.Effects {
		c.applyEffect(env, st, ef)
	}
	locs := c.assignLocs(env, con)
	c.havocLocs(st, pre, locs, "call")
	nx := c.fresh("next", "Int")
	c.assumeAlways(app(">=", nx, c.next(st)))
	st.heap["$next"] = nx
	res := c.freshResult(st, rt, "r_"+m.Name())
	post := *env
	post.st = st
	post.vars = map[string]*Val{}
	for k, v := range env.vars {
		post.vars[k] = v
	}
	c.bindResults(&post, sig, res)
	for _, en := range con.Ensures {
		g := post.evalTop(en)
		c.assume(g.Term)
	}
	for _, pe := range con.PostEffects {
		c.applyEffect(&post, st, pe)
	}
	return res, nil
}

// ---------- builtins ----------

func (c *Ctx) builtin(fr *Frame, st *State, site *ssa.Call, name string, args []*Val, sargs []ssa.Value, rt types.Type) *Val {
	switch name {
	case "len":
		a := args[0]
		switch u := a.T.Underlying().(type) {
		case *types.Slice:
			return intVal(app("llen", a.Term))
		case *types.Basic:
			return intVal(app("slen", a.Term))
		case *types.Array:
			return intVal(num(u.Len()))
		case *types.Pointer:
			return intVal(num(u.Elem().Underlying().(*types.Array).Len()))
		case *types.Map:
			return intVal(ite(eq(a.Term, "0"), "0", c.mapLen(st, u, a.Term)))
		}
	case "cap":
		a := args[0]
		switch u := a.T.Underlying().(type) {
		case *types.Slice:
			return intVal(app("lcap", a.Term))
		case *types.Array:
			return intVal(num(u.Len()))
		case *types.Pointer:
			return intVal(num(u.Elem().Underlying().(*types.Array).Len()))
		}
	case "append":
		return c.builtinAppend(fr, st, site, args, rt)
	case "copy":
		return c.builtinCopy(fr, st, site, args)
	case "delete":
		mt := args[0].T.Underlying().(*types.Map)
		c.mapDelete(st, mt, args[0].Term, keyTerm(c, args[1]))
		return &Val{T: rt}
	case "print", "println":
		return &Val{T: rt}
	case "ssa:wrapnilchk":
		c.safety(fr, "nil-receiver "+exprText(fr, site), site, not(eq(args[0].Term, "0")))
		return args[0]
	case "ssa:deferstack":
		return &Val{T: rt, Term: "0"}
	case "min", "max":
		if sortOf(rt) == "Int" {
			t := args[0].Term
			for _, a := range args[1:] {
				if name == "min" {
					t = ite(app("<=", t, a.Term), t, a.Term)
				} else {
					t = ite(app(">=", t, a.Term), t, a.Term)
				}
			}
			return &Val{T: rt, Term: c.define(name, "Int", t)}
		}
	case "real", "imag", "complex":
		return c.uninterp(name, rt, args...)
	case "recover":
		return c.zeroVal(rt)
	case "clear":
		switch u := args[0].T.Underlying().(type) {
		case *types.Map:
			c.setMapEmpty(st, u, args[0].Term)
			return &Val{T: rt}
		}
	}
	c.unsupported("builtin %s on %s", name, shortTypeName(args[0].T))
	return c.freshResult(st, rt, name)
}

// elemLeaves runs f for each scalar leaf component of slice element type et.
func (c *Ctx) elemLeaves(et types.Type, f func(leaf, innerSort, sort string)) {
	leaves(et, nil, func(path []int, lt types.Type) {
		ls := sortOf(lt)
		if ls == "" {
			c.unsupported("slice element with composite leaf %s", shortTypeName(lt))
			return
		}
		leaf, _ := leafName("E:"+typeName(et), et, path)
		f(leaf, "(Array Int "+ls+")", c.compSort(ls, 2))
	})
}

// builtinAppend models append(s, t...) exactly: in place when capacity suffices, else a fresh array.
func (c *Ctx) builtinAppend(fr *Frame, st *State, site *ssa.Call, args []*Val, rt types.Type) *Val {
	s, t := args[0], args[1]
	et := rt.Underlying().(*types.Slice).Elem()
	var tl, tref, toff string
	fromStr := sortOf(t.T) == "Str"
	if fromStr {
		tl, tref, toff = app("slen", t.Term), app("sref", t.Term), app("soff", t.Term)
	} else {
		tl, tref, toff = app("llen", t.Term), app("lref", t.Term), app("loff", t.Term)
	}
	sl, sc, sr, so := app("llen", s.Term), app("lcap", s.Term), app("lref", s.Term), app("loff", s.Term)
	nl := c.defineInt("alen", app("+", sl, tl))
	fits := c.define("fits", "Bool", app("<=", nl, sc))
	fref := c.allocRef(st, "grown")
	c.assume(eq(app("rtype", fref), num(int64(c.prog.typeTag(rt)))))
	ncap := c.fresh("acap", "Int")
	c.assumeAlways(and(app(">=", ncap, nl), app("<=", ncap, maxObjSize)))
	rref := c.define("aref", "Int", ite(fits, sr, fref))
	roff := c.define("aoff", "Int", ite(fits, so, "0"))
	rcap := c.define("acap", "Int", ite(fits, sc, ncap))
	c.elemLeaves(et, func(leaf, inner, sort string) {
		h := c.H(st, leaf, sort)
		old := c.define("aold", inner, app("select", h, sr))
		narr := c.fresh("anew", inner)
		var src string
		if fromStr {
			src = fmt.Sprintf("(strbyte %s (+ %s (- i (+ %s %s))))", tref, toff, roff, sl)
		} else {
			src = fmt.Sprintf("(select (select %s %s) (+ %s (- i (+ %s %s))))", h, tref, toff, roff, sl)
		}
		// contents of the result array
		c.assumeAlways(fmt.Sprintf("(forall ((i Int)) (! (= (select %s i) (ite (and (<= (+ %s %s) i) (< i (+ %s %s))) %s (ite %s (select %s i) (ite (and (<= 0 i) (< i %s)) (select %s (+ %s i)) (select %s i))))) :pattern ((select %s i))))",
			narr, roff, sl, roff, nl, src, fits, old, sl, old, so, narr, narr))
		if c.dry > 0 && c.wr != nil {
			c.wr.addComp(leaf+"\x00"+sort, sr)
		}
		c.nsym++
		name := sym(fmt.Sprintf("%s@%d", leaf, c.nsym))
		c.declare(name, sort)
		c.assumeAlways(eq(name, app("store", h, rref, narr)))
		st.heap[leaf] = name
	})
	return &Val{T: rt, Term: c.define("app", "Slice", app("mkSlice", rref, roff, nl, rcap))}
}

func (c *Ctx) builtinCopy(fr *Frame, st *State, site *ssa.Call, args []*Val) *Val {
	d, s := args[0], args[1]
	et := d.T.Underlying().(*types.Slice).Elem()
	fromStr := sortOf(s.T) == "Str"
	var sl, sref, soff string
	if fromStr {
		sl, sref, soff = app("slen", s.Term), app("sref", s.Term), app("soff", s.Term)
	} else {
		sl, sref, soff = app("llen", s.Term), app("lref", s.Term), app("loff", s.Term)
	}
	dl, dr, do := app("llen", d.Term), app("lref", d.Term), app("loff", d.Term)
	n := c.defineInt("ncopy", ite(app("<=", dl, sl), dl, sl))
	c.elemLeaves(et, func(leaf, inner, sort string) {
		h := c.H(st, leaf, sort)
		old := c.define("cold", inner, app("select", h, dr))
		narr := c.fresh("cnew", inner)
		var src string
		if fromStr {
			src = fmt.Sprintf("(strbyte %s (+ %s (- i %s)))", sref, soff, do)
		} else {
			src = fmt.Sprintf("(select (select %s %s) (+ %s (- i %s)))", h, sref, soff, do)
		}
		c.assumeAlways(fmt.Sprintf("(forall ((i Int)) (! (= (select %s i) (ite (and (<= %s i) (< i (+ %s %s))) %s (select %s i))) :pattern ((select %s i))))",
			narr, do, do, n, src, old, narr))
		if c.dry > 0 && c.wr != nil {
			c.wr.addComp(leaf+"\x00"+sort, dr)
		}
		c.nsym++
		name := sym(fmt.Sprintf("%s@%d", leaf, c.nsym))
		c.declare(name, sort)
		c.assumeAlways(eq(name, app("store", h, dr, narr)))
		st.heap[leaf] = name
	})
	return intVal(n)
}

// ---------- assigns clauses ----------

// loc is one assignable location set.
type loc struct {
	leaf, sort string
	dim        int
	ref        string // "" = any reference (whole component)
	lo, hi     string // index range [lo,hi) for dim 2 ("" = all indices)
}

var exprCache = map[string]ast.Expr{}

func parseExprCached(s string) (ast.Expr, error) {
	return parseExpr(s)
}

func (c *Ctx) assignLocs(env *Env, con *Contract) []loc {
	var out []loc
	for _, a := range con.Assigns {
		out = append(out, env.locsOf(a)...)
	}
	return out
}

func (e *Env) locsOf(cl *Clause) (out []loc) {
	c := e.c
	defer func() {
		if r := recover(); r != nil {
			if ee, ok := r.(evalError); ok {
				c.unsupported("assigns item %q: %s", cl.Src, string(ee))
				return
			}
			panic(r)
		}
	}()
	x := cl.Expr
	// buf[lo:hi] / buf[:] : elements of a slice
	if se, ok := x.(*ast.SliceExpr); ok {
		base := e.eval(se.X)
		if pt, ok := base.T.Underlying().(*types.Pointer); ok {
			if at, ok := pt.Elem().Underlying().(*types.Array); ok {
				p := c.ptrOf(base)
				if p.Reg != nil || p.Dim != 2 || p.Idx != "" {
					fail("assigns range on embedded array")
				}
				lo, hi := "0", num(at.Len())
				if se.Low != nil {
					lo = e.eval(se.Low).Term
				}
				if se.High != nil {
					hi = e.eval(se.High).Term
				}
				c.elemLeaves(at.Elem(), func(leaf, inner, sort string) {
					out = append(out, loc{leaf: leaf, sort: sort, dim: 2, ref: p.Ref, lo: lo, hi: hi})
				})
				return out
			}
		}
		bt, ok := base.T.Underlying().(*types.Slice)
		if !ok {
			fail("assigns range on non-slice")
		}
		lo, hi := "0", app("lcap", base.Term)
		if se.Low != nil {
			lo = e.eval(se.Low).Term
		}
		if se.High != nil {
			hi = e.eval(se.High).Term
		}
		et := bt.Elem()
		off := app("loff", base.Term)
		c.elemLeaves(et, func(leaf, inner, sort string) {
			out = append(out, loc{leaf: leaf, sort: sort, dim: 2, ref: app("lref", base.Term), lo: app("+", off, lo), hi: app("+", off, hi)})
		})
		return out
	}
	// m[*] style: use call syntax mapof(m)
	if ce, ok := x.(*ast.CallExpr); ok {
		if id, ok := ce.Fun.(*ast.Ident); ok && id.Name == "mapof" {
			m := e.eval(ce.Args[0])
			mt, ok := m.T.Underlying().(*types.Map)
			if !ok {
				fail("mapof on non-map")
			}
			has, val, ks, vs := c.mapComps(mt)
			out = append(out, loc{leaf: has, sort: "(Array Int (Array " + ks + " Bool))", dim: 1, ref: m.Term})
			out = append(out, loc{leaf: val, sort: "(Array Int (Array " + ks + " " + vs + "))", dim: 1, ref: m.Term})
			out = append(out, loc{leaf: "M:" + typeName(mt) + ".len", sort: "(Array Int Int)", dim: 1, ref: m.Term})
			return out
		}
		if id, ok := ce.Fun.(*ast.Ident); ok && id.Name == "allof" {
			// allof(T.f): the whole component for every reference — written as allof(x.f) with any x of that type
			p := e.lvalue(ce.Args[0])
			if p == nil {
				fail("allof: not a location")
			}
			for _, l := range c.ptrLocs(p) {
				l.ref = ""
				l.lo, l.hi = "", ""
				out = append(out, l)
			}
			return out
		}
	}
	p := e.lvalue(x)
	if p == nil {
		fail("not an assignable location")
	}
	return c.ptrLocs(p)
}

func (c *Ctx) ptrLocs(p *Ptr) []loc {
	var out []loc
	if p.Reg != nil {
		return nil
	}
	var walk func(path []int, t types.Type)
	walk = func(path []int, t types.Type) {
		if stt, ok := t.Underlying().(*types.Struct); ok {
			for i := 0; i < stt.NumFields(); i++ {
				walk(append(append([]int{}, path...), i), stt.Field(i).Type())
			}
			return
		}
		ls := sortOf(t)
		if ls == "" {
			return
		}
		leaf, _ := leafName(p.Comp, p.T0, path)
		l := loc{leaf: leaf, sort: c.compSort(ls, p.Dim), dim: p.Dim, ref: p.Ref}
		if p.Dim == 2 && p.Idx != "" {
			l.lo, l.hi = p.Idx, app("+", p.Idx, "1")
		}
		out = append(out, l)
	}
	walk(p.Path, p.Elem)
	return out
}

// localGhost: "local.NAME" is a ghost integer that belongs to one activation of the function under
// verification (a register of its frame): callees cannot touch it, nested activations have their own.
func (e *Env) localGhost(name string) *Ptr {
	fr := e.c.topFrame
	if fr == nil {
		fr = e.fr
	}
	return &Ptr{Reg: &regKey{frame: fr.id, extra: "local." + name}, Elem: types.Typ[types.Int]}
}

// lvalue evaluates an expression to a location.
func (e *Env) lvalue(x ast.Expr) *Ptr {
	c := e.c
	switch n := x.(type) {
	case *ast.ParenExpr:
		return e.lvalue(n.X)
	case *ast.StarExpr:
		v := e.eval(n.X)
		return c.ptrOf(v)
	case *ast.Ident:
		if g := e.globalByName(n.Name); g != nil {
			{
				if _, shadow := e.vars[n.Name]; !shadow {
					return c.ptrOf(c.val(nil2(e.fr), e.st, g))
				}
			}
		}
		return nil
	case *ast.SelectorExpr:
		if id, ok := n.X.(*ast.Ident); ok && id.Name == "local" {
			return e.localGhost(n.Sel.Name)
		}
		// field of pointer / global struct
		var bp *Ptr
		if id, ok := n.X.(*ast.Ident); ok {
			if _, bound := e.vars[id.Name]; !bound {
				if g := e.globalByName(id.Name); g != nil {
					bp = c.ptrOf(c.val(nil2(e.fr), e.st, g))
				}
			}
		}
		if bp == nil {
			if inner := e.lvalueOrNil(n.X); inner != nil && isStructLike(inner.Elem) {
				bp = inner
			} else {
				base := e.eval(n.X)
				if _, ok := base.T.Underlying().(*types.Pointer); !ok {
					return nil
				}
				bp = c.ptrOf(base)
			}
		}
		stt, ok := bp.Elem.Underlying().(*types.Struct)
		if !ok {
			return nil
		}
		_, path := findField(bp.Elem, n.Sel.Name)
		if path == nil {
			fail("no field %s", n.Sel.Name)
		}
		_ = stt
		np := *bp
		t := bp.Elem
		for _, i := range path {
			if pt, ok := t.Underlying().(*types.Pointer); ok {
				// embedded pointer: load it and continue from there
				cur := c.Load(e.st, &np)
				np = *c.refPtr(pt.Elem(), cur.Term)
				t = pt.Elem()
			}
			s2 := t.Underlying().(*types.Struct)
			np.Path = append(append([]int{}, np.Path...), i)
			t = s2.Field(i).Type()
			np.Elem = t
		}
		return &np
	case *ast.IndexExpr:
		if bp := e.lvalueOrNil(n.X); bp != nil {
			if at, ok := bp.Elem.Underlying().(*types.Array); ok {
				idx := e.eval(n.Index)
				np := *bp
				np.Sub = idx.Term
				np.Elem = at.Elem()
				return &np
			}
		}
		base := e.eval(n.X)
		idx := e.eval(n.Index)
		switch bt := base.T.Underlying().(type) {
		case *types.Slice:
			et := bt.Elem()
			return &Ptr{Comp: "E:" + typeName(et), Dim: 2, Ref: app("lref", base.Term), Idx: app("+", app("loff", base.Term), idx.Term), T0: et, Elem: et}
		case *types.Pointer:
			if at, ok := bt.Elem().Underlying().(*types.Array); ok {
				p := c.ptrOf(base)
				np := *p
				np.Idx = idx.Term
				np.Elem = at.Elem()
				return &np
			}
		}
	}
	return nil
}

func (e *Env) lvalueOrNil(x ast.Expr) (p *Ptr) {
	defer func() {
		if r := recover(); r != nil {
			if _, ok := r.(evalError); ok {
				p = nil
				return
			}
			panic(r)
		}
	}()
	switch x.(type) {
	case *ast.SelectorExpr, *ast.StarExpr, *ast.ParenExpr:
		return e.lvalue(x)
	case *ast.Ident:
		return e.lvalue(x)
	}
	return nil
}

// havocLocs replaces the listed locations by unknown values (pre is the state before the call).
func (c *Ctx) havocLocs(st, pre *State, locs []loc, tag string) {
	for _, l := range locs {
		h := c.H(st, l.leaf, l.sort)
		if c.dry > 0 && c.wr != nil {
			r := l.ref
			if l.dim == 0 {
				r = ""
			}
			c.wr.addComp(l.leaf+"\x00"+l.sort, r)
		}
		c.nsym++
		name := sym(fmt.Sprintf("%s@%d_%s", l.leaf, c.nsym, tag))
		c.declare(name, l.sort)
		switch {
		case l.dim == 0 || l.ref == "":
			// fully unknown
		case l.dim == 1 || l.lo == "":
			inner := l.sort[len("(Array Int ") : len(l.sort)-1]
			c.assumeAlways(eq(name, app("store", h, l.ref, c.fresh("hv", inner))))
		default:
			inner := l.sort[len("(Array Int ") : len(l.sort)-1]
			na := c.fresh("hv", inner)
			c.assumeAlways(fmt.Sprintf("(forall ((i Int)) (! (=> (not (and (<= %s i) (< i %s))) (= (select %s i) (select (select %s %s) i))) :pattern ((select %s i))))",
				l.lo, l.hi, na, h, l.ref, na))
			c.assumeAlways(eq(name, app("store", h, l.ref, na)))
		}
		st.heap[l.leaf] = name
	}
}

var _ = token.ADD

func (e *Env) globalByName(name string) *ssa.Global {
	if pkg := e.pkg(); pkg != nil {
		if g, ok := pkg.Members[name].(*ssa.Global); ok {
			return g
		}
	}
	if rp := e.c.prog.Pkgs[rootPkg]; rp != nil {
		if g, ok := rp.Members[name].(*ssa.Global); ok {
			return g
		}
	}
	return nil
}

// keptLeaf: one heap component named by a "keeps" item, with the objects it does not cover.
type keptLeaf struct {
	leaf, sort string
	except     []string // contract expressions (references): these objects may change
}

func keptPairs(ks []keptLeaf) [][2]string {
	var out [][2]string
	for _, k := range ks {
		if len(k.except) == 0 {
			out = append(out, [2]string{k.leaf, k.sort})
		}
	}
	return out
}

// keptLeaves resolves "keeps" items to heap components:
//
//	T.f | T.*            struct fields of the root package's type T
//	ghost.v              a ghost variable
//	map[K]V              the contents of every map of that type
//	<item> except e ...  ... of every object other than e (a reference expression; may mention result and old())
func (c *Ctx) keptLeaves(con *Contract) []keptLeaf {
	var out []keptLeaf
	rp := c.prog.Pkgs[rootPkg]
	for _, item := range con.Keeps {
		segs := strings.Split(item, " except ")
		it := strings.TrimSpace(segs[0])
		var exc []string
		for _, e := range segs[1:] {
			exc = append(exc, strings.TrimSpace(e))
		}
		if strings.HasPrefix(it, "map[") {
			ex, err := parseExprCached(it)
			if err != nil {
				c.unsupported("keeps item %q", it)
				continue
			}
			env := &Env{c: c, fr: c.topFrame, fn: c.fn, vars: map[string]*Val{}}
			mt, ok := env.typeExpr(ex).Underlying().(*types.Map)
			if !ok {
				c.unsupported("keeps: not a map type %q", it)
				continue
			}
			for _, lf := range c.mapLeaves(mt) {
				out = append(out, keptLeaf{lf[0], lf[1], exc})
			}
			continue
		}
		parts := strings.SplitN(it, ".", 2)
		if len(parts) == 1 && rp != nil {
			// a scalar package-level variable of the root package
			if g, ok := rp.Members[it].(*ssa.Global); ok {
				if ls := sortOf(g.Type().(*types.Pointer).Elem()); ls != "" {
					out = append(out, keptLeaf{"G:" + rootPkg + "." + it, ls, nil})
					continue
				}
			}
		}
		if len(parts) != 2 || rp == nil {
			c.unsupported("keeps item %q", it)
			continue
		}
		if parts[0] == "ghost" {
			// a ghost variable (scalar leaf of the package variable "ghost")
			names, sorts := c.ghostLeaves()
			found := false
			for i, n := range names {
				if n == "G:"+rootPkg+".ghost."+parts[1] {
					out = append(out, keptLeaf{n, sorts[i], nil})
					found = true
				}
			}
			if !found {
				c.unsupported("keeps: no ghost variable %q", it)
			}
			continue
		}
		tn, ok := rp.Members[parts[0]].(*ssa.Type)
		if !ok {
			c.unsupported("keeps: unknown type %q", parts[0])
			continue
		}
		stt, ok := tn.Type().Underlying().(*types.Struct)
		if !ok {
			continue
		}
		found := false
		for i := 0; i < stt.NumFields(); i++ {
			if stt.Field(i).Name() == parts[1] || parts[1] == "*" {
				leaves(stt.Field(i).Type(), []int{i}, func(path []int, lt types.Type) {
					if ls := sortOf(lt); ls != "" {
						n, _ := leafName("F:"+typeName(tn.Type()), tn.Type(), path)
						out = append(out, keptLeaf{n, c.compSort(ls, 1), exc})
					}
				})
				found = true
			}
		}
		if !found {
			c.unsupported("keeps: no field %q", it)
		}
	}
	return out
}

// restoreCaptured: local variables of the functions being executed that escape only into closures
// (captured variables) are not written by callees: closures that assign to a captured variable are
// rejected when they are created (see closureBindings).
func (c *Ctx) restoreCaptured(st, pre *State) {
	for _, cc := range c.captured {
		h := c.H(st, cc.leaf, cc.sort)
		old := c.H(pre, cc.leaf, cc.sort)
		c.nsym++
		name := sym(fmt.Sprintf("%s@%d_cap", cc.leaf, c.nsym))
		c.declare(name, cc.sort)
		c.assumeAlways(eq(name, app("store", h, cc.ref, app("select", old, cc.ref))))
		st.heap[cc.leaf] = name
	}
}

type capturedCell struct{ leaf, sort, ref string }
