package vc

import (
	"bytes"
	"context"
	"fmt"
	"math/big"
	"os"
	"os/exec"
	"path/filepath"
	"strings"
	"sync"
	"time"
)

// ---------- term helpers (terms are SMT-LIB2 text) ----------

func app(op string, args ...string) string {
	if len(args) == 0 {
		return op
	}
	if len(args) == 1 && strings.HasPrefix(args[0], "(mkSlice ") {
		// selector applied to a literal slice of atoms: (llen (mkSlice r o l c)) = l
		if f := strings.Fields(strings.TrimSuffix(args[0][len("(mkSlice "):], ")")); len(f) == 4 && !strings.ContainsAny(args[0][1:len(args[0])-1], "()") {
			switch op {
			case "lref":
				return f[0]
			case "loff":
				return f[1]
			case "llen":
				return f[2]
			case "lcap":
				return f[3]
			}
		}
	}
	if len(args) == 1 && strings.HasPrefix(op, "wrap") && isNumeral(args[0]) {
		// wrapU64 / wrapS32 … of a literal: fold
		var bits int
		signed := op[4] == 'S'
		if _, err := fmt.Sscanf(op[5:], "%d", &bits); err == nil && bits > 0 && (op[4] == 'S' || op[4] == 'U') {
			v := parseNumeral(args[0])
			m := new(big.Int).Lsh(big.NewInt(1), uint(bits))
			v = new(big.Int).Mod(v, m)
			if signed && v.Cmp(new(big.Int).Rsh(m, 1)) >= 0 {
				v.Sub(v, m)
			}
			return bigNum(v)
		}
	}
	return "(" + op + " " + strings.Join(args, " ") + ")"
}

func num(i int64) string {
	if i < 0 {
		if i == -1<<63 {
			return "(- 9223372036854775808)"
		}
		return fmt.Sprintf("(- %d)", -i)
	}
	return fmt.Sprintf("%d", i)
}

func bigNum(b *big.Int) string {
	if b.Sign() < 0 {
		return "(- " + new(big.Int).Neg(b).String() + ")"
	}
	return b.String()
}

func and(args ...string) string {
	var out []string
	for _, a := range args {
		if a == "true" || a == "" {
			continue
		}
		if a == "false" {
			return "false"
		}
		out = append(out, a)
	}
	switch len(out) {
	case 0:
		return "true"
	case 1:
		return out[0]
	}
	return app("and", out...)
}

func or(args ...string) string {
	var out []string
	for _, a := range args {
		if a == "false" || a == "" {
			continue
		}
		if a == "true" {
			return "true"
		}
		out = append(out, a)
	}
	switch len(out) {
	case 0:
		return "false"
	case 1:
		return out[0]
	}
	return app("or", out...)
}

func not(a string) string {
	switch a {
	case "true":
		return "false"
	case "false":
		return "true"
	}
	if strings.HasPrefix(a, "(not ") && balancedTail(a[5:len(a)-1]) {
		return a[5 : len(a)-1]
	}
	return app("not", a)
}

func balancedTail(s string) bool {
	d := 0
	for i := 0; i < len(s); i++ {
		switch s[i] {
		case '(':
			d++
		case ')':
			d--
			if d < 0 {
				return false
			}
		case '|':
			j := strings.IndexByte(s[i+1:], '|')
			if j < 0 {
				return false
			}
			i += j + 1
		case ' ':
			if d == 0 {
				return false
			}
		}
	}
	return d == 0
}

func implies(a, b string) string {
	if a == "true" {
		return b
	}
	if b == "true" || a == "false" {
		return "true"
	}
	return app("=>", a, b)
}

func eq(a, b string) string {
	if a == b {
		return "true"
	}
	return app("=", a, b)
}

func ite(c, a, b string) string {
	if c == "true" {
		return a
	}
	if c == "false" {
		return b
	}
	if a == b {
		return a
	}
	return app("ite", c, a, b)
}

func sym(s string) string {
	for i := 0; i < len(s); i++ {
		c := s[i]
		if !(c >= 'a' && c <= 'z' || c >= 'A' && c <= 'Z' || c >= '0' && c <= '9' || c == '_' || c == '.' || c == '!' || c == '@' || c == '$') {
			return "|" + strings.NewReplacer("|", "!", "\\", "/").Replace(s) + "|"
		}
	}
	if s == "" || (s[0] >= '0' && s[0] <= '9') {
		return "|" + s + "|"
	}
	return s
}

// ---------- prelude ----------

const prelude = `(set-option :produce-models true)
(declare-datatypes ((Str 0)) (((mkStr (sref Int) (soff Int) (slen Int)))))
(declare-datatypes ((Slice 0)) (((mkSlice (lref Int) (loff Int) (llen Int) (lcap Int)))))
(declare-datatypes ((Iface 0)) (((mkIface (itag Int) (ival Int)))))
(declare-sort F64 0)
(declare-sort C128 0)
(declare-sort Opaque 0)
(declare-fun strbyte (Int Int) Int)
(declare-fun strid (Str) Int)
(declare-fun rtype (Int) Int)
(define-fun wrapS64 ((x Int)) Int (- (mod (+ x 9223372036854775808) 18446744073709551616) 9223372036854775808))
(define-fun wrapU64 ((x Int)) Int (mod x 18446744073709551616))
(define-fun wrapS32 ((x Int)) Int (- (mod (+ x 2147483648) 4294967296) 2147483648))
(define-fun wrapU32 ((x Int)) Int (mod x 4294967296))
(define-fun wrapS16 ((x Int)) Int (- (mod (+ x 32768) 65536) 32768))
(define-fun wrapU16 ((x Int)) Int (mod x 65536))
(define-fun wrapS8 ((x Int)) Int (- (mod (+ x 128) 256) 128))
(define-fun wrapU8 ((x Int)) Int (mod x 256))
(define-fun tdiv ((a Int) (b Int)) Int (ite (>= a 0) (ite (> b 0) (div a b) (- (div a (- b)))) (ite (> b 0) (- (div (- a) b)) (div (- a) (- b)))))
(define-fun tmod ((a Int) (b Int)) Int (- a (* b (tdiv a b))))
(declare-fun bitand (Int Int) Int)
(declare-fun bitor (Int Int) Int)
(declare-fun bitxor (Int Int) Int)
(declare-fun shl (Int Int) Int)
(declare-fun shr (Int Int) Int)
(declare-fun nlmul (Int Int) Int)
(declare-fun nldiv (Int Int) Int)
(declare-fun nlmod (Int Int) Int)
`

// ---------- solver race ----------

type SolverResult struct {
	Status  string // unsat | sat | unknown | timeout | error
	Solver  string
	Seconds float64
	Output  string
}

type solverSpec struct {
	name string
	args func(file string, timeoutS int) []string
}

// solverSeed: 0 on the first attempt; the second attempt of an undecided obligation runs the solvers with
// another random seed (the same file may send a solver down a diverging instantiation path again otherwise).
var solverSeed int

func seedArgsZ3() []string {
	if solverSeed == 0 {
		return nil
	}
	return []string{fmt.Sprintf("smt.random_seed=%d", solverSeed), fmt.Sprintf("sat.random_seed=%d", solverSeed)}
}

var solvers = []solverSpec{
	{"z3-new", func(f string, t int) []string {
		return append(append([]string{"z3-new", fmt.Sprintf("-T:%d", t)}, seedArgsZ3()...), f)
	}},
	{"z3", func(f string, t int) []string {
		return append(append([]string{"/usr/bin/z3", fmt.Sprintf("-T:%d", t)}, seedArgsZ3()...), f)
	}},
	{"cvc5", func(f string, t int) []string {
		a := []string{"cvc5", "--incremental", fmt.Sprintf("--tlimit=%d", t*1000)}
		if solverSeed != 0 {
			a = append(a, fmt.Sprintf("--seed=%d", solverSeed))
		}
		return append(a, f)
	}},
}

func runSolver(ctx context.Context, sp solverSpec, file string, timeoutS int) SolverResult {
	argv := sp.args(file, timeoutS)
	start := time.Now()
	cctx, cancel := context.WithTimeout(ctx, time.Duration(timeoutS+2)*time.Second)
	defer cancel()
	cmd := exec.CommandContext(cctx, argv[0], argv[1:]...)
	var out bytes.Buffer
	cmd.Stdout = &out
	cmd.Stderr = &out
	_ = cmd.Run()
	el := time.Since(start).Seconds()
	text := out.String()
	first := ""
	for _, ln := range strings.Split(text, "\n") {
		ln = strings.TrimSpace(ln)
		if ln == "sat" || ln == "unsat" || ln == "unknown" || ln == "timeout" {
			first = ln
			break
		}
	}
	st := first
	if st == "" {
		if cctx.Err() != nil {
			st = "timeout"
		} else {
			st = "error"
		}
	}
	if len(text) > 20000 {
		text = text[:20000] + "\n...truncated"
	}
	return SolverResult{Status: st, Solver: sp.name, Seconds: el, Output: text}
}

// Discharge runs the solvers on an SMT file. mode "quick": z3-new first, then the
// other two raced if it is indefinite. mode "thorough": all three, every definite
// answer must agree.
func Discharge(file string, tier string, timeoutS int) (SolverResult, []SolverResult) {
	ctx := context.Background()
	if tier != "thorough" {
		// hedged race: z3-new starts alone; the other two join if it has not answered within 1.5 s
		cctx, cancel := context.WithCancel(ctx)
		defer cancel()
		ch := make(chan SolverResult, len(solvers))
		go func() { ch <- runSolver(cctx, solvers[0], file, timeoutS) }()
		started := 1
		var all []SolverResult
		var first SolverResult
		timer := time.NewTimer(1500 * time.Millisecond)
		defer timer.Stop()
		got := 0
		for got < started {
			select {
			case x := <-ch:
				got++
				all = append(all, x)
				if got == 1 {
					first = x
				}
				if x.Status == "sat" || x.Status == "unsat" {
					return x, all
				}
				if started == 1 {
					// indefinite answer from the first solver: bring in the others now
					for _, sp := range solvers[1:] {
						sp := sp
						go func() { ch <- runSolver(cctx, sp, file, timeoutS) }()
					}
					started = len(solvers)
				}
			case <-timer.C:
				if started == 1 {
					for _, sp := range solvers[1:] {
						sp := sp
						go func() { ch <- runSolver(cctx, sp, file, timeoutS) }()
					}
					started = len(solvers)
				}
			}
		}
		return first, all
	}
	var wg sync.WaitGroup
	res := make([]SolverResult, len(solvers))
	for i, sp := range solvers {
		wg.Add(1)
		go func(i int, sp solverSpec) {
			defer wg.Done()
			res[i] = runSolver(ctx, sp, file, timeoutS)
		}(i, sp)
	}
	wg.Wait()
	var best SolverResult
	best.Status = "unknown"
	for _, r := range res {
		if r.Status == "sat" || r.Status == "unsat" {
			if best.Status == "unknown" {
				best = r
			} else if best.Status != r.Status {
				best = SolverResult{Status: "error", Solver: best.Solver + "+" + r.Solver,
					Output: "solver disagreement: " + best.Solver + "=" + best.Status + " " + r.Solver + "=" + r.Status}
				return best, res
			}
		}
	}
	if best.Status == "unknown" {
		best = res[0]
	}
	return best, res
}

func bgctx() context.Context { return context.Background() }

func writeFile(dir, name, content string) (string, error) {
	p := filepath.Join(dir, name)
	if err := os.MkdirAll(filepath.Dir(p), 0o755); err != nil {
		return "", err
	}
	return p, os.WriteFile(p, []byte(content), 0o644)
}
