package vc

import (
	"bufio"
	"encoding/json"
	"fmt"
	"os"
	"path/filepath"
	"sort"
	"strings"
	"sync"
	"time"

	"golang.org/x/tools/go/ssa"
)

// Finding is one line of /verif/known_findings.txt:
//
//	finding: property=C04 obligation=<name> [except=<go expr over the parameters>] :: <what fails>
//	fixed: property=C20 <commit> <what failed>
type Finding struct {
	Property   string
	Obligation string
	Except     string
	What       string
}

// findingFor: the known finding that covers obligation name: an exact match, or - for a finding that
// pins its input class with an 'except' predicate - any of the per-path variants name.2, name.3 ... of it.
func (P *Program) findingFor(name string) *Finding {
	if f := P.Findings[name]; f != nil {
		return f
	}
	if i := strings.LastIndex(name, "."); i > 0 {
		digits := name[i+1:]
		ok := digits != ""
		for _, r := range digits {
			if r < '0' || r > '9' {
				ok = false
			}
		}
		if ok {
			if f := P.Findings[name[:i]]; f != nil && f.Except != "" {
				return f
			}
		}
	}
	return nil
}

func LoadFindings(path string) ([]*Finding, error) {
	f, err := os.Open(path)
	if err != nil {
		if os.IsNotExist(err) {
			return nil, nil
		}
		return nil, err
	}
	defer f.Close()
	var out []*Finding
	sc := bufio.NewScanner(f)
	sc.Buffer(make([]byte, 1<<20), 1<<20)
	for sc.Scan() {
		ln := strings.TrimSpace(sc.Text())
		if !strings.HasPrefix(ln, "finding:") {
			continue // "fixed:" lines and comments suppress nothing
		}
		body := strings.TrimSpace(ln[len("finding:"):])
		what := ""
		if i := strings.Index(body, "::"); i >= 0 {
			what = strings.TrimSpace(body[i+2:])
			body = strings.TrimSpace(body[:i])
		}
		fd := &Finding{What: what}
		// except= may contain spaces: it runs to the end of the body
		if i := strings.Index(body, " except="); i >= 0 {
			fd.Except = strings.TrimSpace(body[i+len(" except="):])
			body = body[:i]
		}
		for _, tok := range strings.Fields(body) {
			switch {
			case strings.HasPrefix(tok, "property="):
				fd.Property = tok[len("property="):]
			case strings.HasPrefix(tok, "obligation="):
				fd.Obligation = tok[len("obligation="):]
			}
		}
		if fd.Property == "" || fd.Obligation == "" {
			return nil, fmt.Errorf("%s: malformed finding line: %s", path, ln)
		}
		out = append(out, fd)
	}
	return out, sc.Err()
}

type CheckOpts struct {
	Property   string
	Tier       string
	Seed       int64
	VerifDir   string
	TimeoutS   int
	Keep       bool
	Verbose    bool
	CheckerCmd string
	NoEvidence bool // must-fail runs (selftest) do not overwrite the evidence files
	Deps       bool // audit mode: also verify every in-repo callee whose contract the proofs apply (not used by registered checks)
}

type evidence struct {
	PropertyID  string         `json:"property_id"`
	Tier        string         `json:"tier"`
	Seed        int64          `json:"seed"`
	Level       string         `json:"level"`
	Coverage    map[string]any `json:"coverage"`
	Assumptions []string       `json:"assumptions"`
	WallS       float64        `json:"wall_s"`
	Violations  int            `json:"violations"`
}

// oblProps: the properties an obligation counts for.
func oblProps(o *Obligation, con *Contract) []string {
	if len(o.Props) > 0 {
		return o.Props
	}
	if con != nil {
		return con.Props
	}
	return nil
}

func hasStr(xs []string, x string) bool {
	for _, y := range xs {
		if y == x {
			return true
		}
	}
	return false
}

// Check runs the property check and returns the process exit code.
func (P *Program) Check(opt CheckOpts) int {
	start := time.Now()
	prop := opt.Property
	findings, err := LoadFindings(filepath.Join(opt.VerifDir, "known_findings.txt"))
	if err != nil {
		fmt.Println("error:", err)
		return 2
	}
	P.Findings = map[string]*Finding{}
	anyFinding := map[string]bool{} // obligations that are known findings of any property (they fail: no point in trying a group they belong to)
	for _, f := range findings {
		anyFinding[f.Obligation] = true
		if f.Property == prop {
			P.Findings[f.Obligation] = f
		}
	}
	knownFails := func(name string) bool {
		if anyFinding[name] {
			return true
		}
		if i := strings.LastIndex(name, "."); i > 0 && anyFinding[name[:i]] {
			return true
		}
		return false
	}
	// functions under contract for this property
	var fns []*ssa.Function
	var keys []string
	for k, c := range P.Contracts {
		if c.External || c.Trusted {
			continue
		}
		if c.hasProp(prop) {
			keys = append(keys, k)
		}
	}
	sort.Strings(keys)
	for _, k := range keys {
		fns = append(fns, P.funcs[k])
	}
	// The proof of a function rests on the contracts of the in-repo callees it applies: those
	// callees are verified too (transitively), whatever properties their contracts name, so that a
	// change inside one of them that breaks the contract the property's proof used is noticed.
	var results []*FuncResult
	isDep := map[*FuncResult]bool{}
	done := map[string]bool{}
	for _, k := range keys {
		done[k] = true
	}
	batch := fns
	depRound := false
	for len(batch) > 0 {
		rs := make([]*FuncResult, len(batch))
		var wg sync.WaitGroup
		sem := make(chan struct{}, 16)
		for i, fn := range batch {
			wg.Add(1)
			go func(i int, fn *ssa.Function) {
				defer wg.Done()
				sem <- struct{}{}
				defer func() { <-sem }()
				rs[i] = P.VerifyFunc(fn)
			}(i, fn)
		}
		wg.Wait()
		var next []string
		for _, r := range rs {
			if depRound {
				isDep[r] = true
			}
			results = append(results, r)
			for _, u := range r.Uses {
				if !done[u] {
					done[u] = true
					next = append(next, u)
				}
			}
		}
		sort.Strings(next)
		batch = nil
		if !opt.Deps {
			next = nil
		}
		for _, k := range next {
			if c := P.Contracts[k]; c != nil && !c.External && !c.Trusted && P.funcs[k] != nil {
				batch = append(batch, P.funcs[k])
			}
		}
		depRound = true
	}
	sweepStale(filepath.Join(opt.VerifDir, "work"))
	sweepStale(filepath.Join(opt.VerifDir, "replay", "scratch"))
	// one scratch directory per process: checks of the same property may run side by side (quick and thorough,
	// canaries on scratch copies)
	work := filepath.Join(opt.VerifDir, "work", fmt.Sprintf("%s_%s_%d", prop, opt.Tier, os.Getpid()))
	os.RemoveAll(work)
	want := func(o *Obligation) bool { return true }
	// select this property's obligations
	sel := map[*Obligation]bool{}
	for _, r := range results {
		for _, o := range r.Obligations {
			if !o.GroupHead && (isDep[r] || hasStr(oblProps(o, r.Contract), prop)) {
				sel[o] = true
			}
		}
	}
	want = func(o *Obligation) bool { return sel[o] }
	DischargeAll(results, want, DischargeOpts{Tier: opt.Tier, TimeoutS: opt.TimeoutS, WorkDir: work, Keep: opt.Keep,
		Short: func(o *Obligation) bool {
			return (P.findingFor(o.Name) != nil || knownFails(o.Name)) && opt.Tier != "thorough"
		}})

	// ---- assess ----
	total, discharged := 0, 0
	bySolver := map[string]int{}
	solverSec := 0.0
	var samples []any
	var funcsUnder []string
	assumed := map[string]bool{}
	var violations []string
	knownLines := []string{}
	// replay files live per property and tier; runs that do not write evidence (must-fail runs, canaries on
	// scratch copies) keep theirs apart so that they never disturb the files a registered check reported
	replayDir := filepath.Join(opt.VerifDir, "replay", prop, opt.Tier)
	if opt.NoEvidence || opt.Deps {
		replayDir = filepath.Join(opt.VerifDir, "replay", "scratch", fmt.Sprintf("%s_%d", prop, os.Getpid()))
	}
	os.RemoveAll(replayDir)
	covers := 0
	var coverUndecided []string
	seenKnown := map[string]bool{}
	ndeps := 0
	for _, r := range results {
		if isDep[r] {
			ndeps++
			funcsUnder = append(funcsUnder, r.Func+" (dependency: its contract is used by the proof)")
		} else {
			funcsUnder = append(funcsUnder, r.Func)
		}
		for _, a := range r.Assumed {
			assumed[a] = true
		}
		for _, a := range r.Inlined {
			assumed["inlined (not modular): "+a+" into "+r.Func] = true
		}
		byName := map[string]*Obligation{}
		for _, o := range r.Obligations {
			byName[o.Name] = o
		}
		for _, o := range r.Obligations {
			if !sel[o] || strings.HasSuffix(o.Name, "~except") {
				continue
			}
			total++
			if o.ExpectSat {
				covers++
				if o.Undecided() {
					coverUndecided = append(coverUndecided, o.Name)
				}
			}
			failed := o.Failed()
			if len(r.Unsupported) > 0 {
				failed = true
			}
			if o.Result != nil {
				solverSec += o.Result.Seconds
			}
			if !failed {
				discharged++
				bySolver[o.Result.Solver]++
				if len(samples) < 12 {
					samples = append(samples, map[string]any{"obligation": o.Name, "kind": o.Kind, "clause": o.Src, "at": o.Pos, "status": o.Result.Status, "solver": o.Result.Solver, "seconds": round3(o.Result.Seconds)})
				}
				continue
			}
			// failed: known finding?
			if f := P.findingFor(o.Name); f != nil {
				ok := true
				if f.Except != "" {
					tw := byName[o.Name+"~except"]
					ok = tw != nil && !tw.Failed() && len(r.Unsupported) == 0
				}
				if ok {
					if !seenKnown[f.Obligation] {
						seenKnown[f.Obligation] = true
						knownLines = append(knownLines, fmt.Sprintf("KNOWN-FINDING: property=%s %s :: %s", prop, f.Obligation, f.What))
					}
					continue
				}
			}
			path := P.writeReplay(replayDir, prop, r, o)
			line := fmt.Sprintf("VIOLATION property=%s replay=%s", prop, path)
			if !o.Replayed {
				line += " no-failing-input-found"
			}
			violations = append(violations, line)
		}
	}
	for _, r := range results {
		for _, u := range r.Unsupported {
			fmt.Printf("OUTSIDE-SUBSET %s: %s\n", r.Func, u)
		}
	}
	for _, oc := range P.Orphans {
		if !oc.hasProp(prop) {
			continue
		}
		os.MkdirAll(replayDir, 0o755)
		path := filepath.Join(replayDir, safeFile("missing-function_"+oc.Name)+".txt")
		os.WriteFile(path, []byte(fmt.Sprintf("property: %s\nfailed obligation: %s#exists\nthe function %s (package %s) is under contract for this property (%s:%d) but does not exist in the current tree: its obligations cannot be generated, the property is not decided\n", prop, oc.Name, oc.Name, oc.PkgPath, oc.File, oc.Line)), 0o644)
		violations = append(violations, fmt.Sprintf("VIOLATION property=%s replay=%s no-failing-input-found", prop, path))
		total++
	}
	boundedRecs, bviol := P.runBounded(prop, opt.Tier, replayDir)
	violations = append(violations, bviol...)
	for _, pp := range P.ProductProblems {
		if pp.Prop != prop {
			continue
		}
		os.MkdirAll(replayDir, 0o755)
		path := filepath.Join(replayDir, safeFile(pp.Name)+".txt")
		os.WriteFile(path, []byte(fmt.Sprintf("property: %s\nfailed obligation: %s\n%s\nthe agreement of the two functions is not decided\n", prop, pp.Name, pp.Msg)), 0o644)
		violations = append(violations, fmt.Sprintf("VIOLATION property=%s replay=%s no-failing-input-found", prop, path))
		total++
	}
	sort.Strings(knownLines)
	for _, l := range knownLines {
		fmt.Println(l)
	}
	for _, l := range violations {
		fmt.Println(l)
	}
	assumptions := []string{}
	for a := range assumed {
		assumptions = append(assumptions, a)
	}
	sort.Strings(assumptions)
	assumptions = append(assumptions, P.PropertyAssumptions(prop)...)
	P.renMu.Lock()
	var rens []string
	for k := range P.Renames {
		rens = append(rens, k)
	}
	P.renMu.Unlock()
	sort.Strings(rens)
	for _, k := range rens {
		fmt.Printf("RENAMED %s (a contract names a variable the function no longer has; read as the variable now at its recorded position, engine/externals/locals.json)\n", k)
		assumptions = append(assumptions, "variable renamed since the contract was written, clause read positionally: "+k)
	}
	level := "proof"
	expl := ""
	if len(knownLines) > 0 || len(violations) > 0 || discharged != total || len(coverUndecided) > 0 {
		level = "other"
		expl = fmt.Sprintf("%d of %d obligations discharged (%d vacuity guards undecided); %d open known findings; %d violations. Level is 'proof' only when every obligation is discharged.", discharged, total, len(coverUndecided), len(knownLines), len(violations))
	}
	if note := P.PropertyNote(prop); note != "" {
		if strings.HasPrefix(note, "partial:") {
			level = "other"
		}
		expl = strings.TrimSpace(expl + " " + note)
	}
	ev := evidence{PropertyID: prop, Tier: opt.Tier, Seed: opt.Seed, Level: level, Assumptions: assumptions,
		WallS: round3(time.Since(start).Seconds()), Violations: len(violations)}
	ev.Coverage = map[string]any{
		"obligations":              total,
		"discharged":               discharged,
		"checker_cmd":              opt.CheckerCmd,
		"trusted_base":             trustedBase,
		"functions_under_contract": funcsUnder,
		"by_backend":               bySolver,
		"solver_seconds":           round3(solverSec),
		"cover_obligations":        covers,
		"known_findings_open":      knownLines,
		"samples":                  samples,
		"contract_files":           P.ConFiles,
	}
	if expl != "" {
		ev.Coverage["explanation"] = expl
	}
	if len(coverUndecided) > 0 {
		sort.Strings(coverUndecided)
		ev.Coverage["cover_undecided"] = coverUndecided
		for _, n := range coverUndecided {
			fmt.Printf("COVER-UNDECIDED %s (no solver decided this vacuity guard; nothing is concluded from it)\n", n)
		}
	}
	if len(boundedRecs) > 0 {
		ev.Coverage["bounded_standins"] = boundedRecs
	}
	evDir := filepath.Join(opt.VerifDir, "evidence")
	os.MkdirAll(evDir, 0o755)
	data, _ := json.MarshalIndent(ev, "", " ")
	if !opt.Deps && !opt.NoEvidence {
		os.WriteFile(filepath.Join(evDir, prop+".json"), append(data, '\n'), 0o644)
	} else {
		for _, r := range results {
			if isDep[r] {
				fmt.Printf("DEP %s\n", r.Func)
			}
		}
	}
	fmt.Printf("property %s: %d functions under contract (%d as dependencies), %d/%d obligations discharged (%d cover), %d known findings, %d violations, %.1fs\n",
		prop, len(results), ndeps, discharged, total, covers, len(knownLines), len(violations), time.Since(start).Seconds())
	if total == 0 {
		fmt.Printf("VIOLATION property=%s replay=%s no-failing-input-found\n", prop, "none: zero obligations generated (vacuous check)")
		return 1
	}
	if !opt.Keep {
		os.RemoveAll(work)
	}
	if len(violations) > 0 {
		return 1
	}
	return 0
}

// sweepStale removes the per-process directories "<name>_<pid>" in dir whose process is gone.
func sweepStale(dir string) {
	ents, err := os.ReadDir(dir)
	if err != nil {
		return
	}
	for _, e := range ents {
		n := e.Name()
		i := strings.LastIndex(n, "_")
		if !e.IsDir() || i < 0 {
			continue
		}
		pid := n[i+1:]
		if pid == "" || strings.Trim(pid, "0123456789") != "" {
			continue
		}
		if _, err := os.Stat("/proc/" + pid); err != nil {
			os.RemoveAll(filepath.Join(dir, n))
		}
	}
}

func round3(f float64) float64 { return float64(int64(f*1000+0.5)) / 1000 }

var trustedBase = []string{
	"lvc VC generator (this engine): SSA translation, heap model, contract evaluator",
	"golang.org/x/tools/go/ssa builder (NaiveForm) and go/types",
	"SMT solvers z3 4.8.12, z3 5.1.0, cvc5 1.0",
	"int/uint are 64 bit (amd64); no memory exhaustion (no slice or string exceeds 2^40 elements) or stack overflow; partial correctness unless 'decreases' given",
	"external callees obey their assumed contracts (listed under assumptions)",
	"sequential execution only (no goroutines); user callbacks do not re-enter logg",
	"default build tags plus 'verif'",
}

// writeReplay writes the replay file for a failed obligation and returns its path.
func (P *Program) writeReplay(dir, prop string, r *FuncResult, o *Obligation) string {
	os.MkdirAll(dir, 0o755)
	path := filepath.Join(dir, safeFile(o.Name)+".txt")
	var sb strings.Builder
	fmt.Fprintf(&sb, "property: %s\nfailed obligation: %s\nfunction: %s\nkind: %s\nclause: %s\nat: %s\n", prop, o.Name, r.Func, o.Kind, o.Src, o.Pos)
	if len(r.Unsupported) > 0 {
		fmt.Fprintf(&sb, "function is outside the verifier's subset, its obligations cannot be discharged:\n")
		for _, u := range r.Unsupported {
			fmt.Fprintf(&sb, "  - %s\n", u)
		}
	}
	if o.Result != nil {
		fmt.Fprintf(&sb, "solver: %s status: %s (%.2fs)\n", o.Result.Solver, o.Result.Status, o.Result.Seconds)
		fmt.Fprintf(&sb, "---- verifier output ----\n%s\n", o.Result.Output)
	}
	fmt.Fprintf(&sb, "smt file: %s\n", o.SMTFile)
	rp := P.tryReplay(dir, prop, r, o, &sb)
	os.WriteFile(path, []byte(sb.String()), 0o644)
	if rp != "" {
		return rp
	}
	return path
}
