; (*dualWriter).Remove — postcondition "view' = view minus first element denoting w", exit through the 2nd return (x == w)
; heap of LogWriter arrays: version A0 (pre), A1 (after append(s.Normal[:i], s.Normal[i+1:]...))
(set-option :produce-models true)
(declare-sort Dest 0)
(declare-fun A0 (Int) Dest)      ; contents of the backing array before
(declare-fun A1 (Int) Dest)      ; after
(declare-const n Int)            ; len(s.Normal)
(declare-const capn Int)
(declare-const i Int)            ; rangeindex at the return
(declare-const w Dest)
(declare-fun denotes (Dest Dest) Bool)  ; spec: x == w or x is *logwr wrapping w
(declare-fun isLogwrPtrEq (Dest Dest) Bool) ; code test 1: xl,ok := x.(*logwr); ok && xl == w
; facts about the two code tests w.r.t. the spec (what the code can establish)
(assert (forall ((x Dest) (y Dest)) (=> (= x y) (denotes x y))))
(assert (forall ((x Dest) (y Dest)) (=> (isLogwrPtrEq x y) (= x y))))
(assert (and (<= 0 n) (<= n capn)))
; loop invariant at iteration i: no earlier element matched either code test
(assert (and (<= 0 i) (< i n)))
(assert (forall ((k Int)) (=> (and (<= 0 k) (< k i)) (and (not (isLogwrPtrEq (A0 k) w)) (not (= (A0 k) w))))))
; path: second test fires
(assert (= (A0 i) w))
; builtin append(a[:i], a[i+1:]...) with enough capacity: memmove within the same array
(assert (forall ((k Int)) (=> (and (<= i k) (< k (- n 1))) (= (A1 k) (A0 (+ k 1))))))
(assert (forall ((k Int)) (=> (or (< k i) (>= k (- n 1))) (= (A1 k) (A0 k)))))
(define-fun n1 () Int (- n 1))
; POST (negated): exists first index j denoting w; result is A0 with j removed
(declare-const j Int)
(assert (not (and
   (= n1 (- n 1))
   (denotes (A0 i) w)
   (forall ((k Int)) (=> (and (<= 0 k) (< k i)) (= (A1 k) (A0 k))))
   (forall ((k Int)) (=> (and (<= i k) (< k n1)) (= (A1 k) (A0 (+ k 1)))))
   ; "first": no earlier element denotes w  -- THIS is what the real code cannot give (wrapped plain writers)
   (forall ((k Int)) (=> (and (<= 0 k) (< k i)) (not (denotes (A0 k) w))))
)))
(check-sat)
