; fmtInt loop invariant preservation: nd0(v/10) == nd0(v) - 1 for 0 < v < 2^64
(define-fun nd0 ((v Int)) Int
 (ite (< v 1) 0 (ite (< v 10) 1 (ite (< v 100) 2 (ite (< v 1000) 3 (ite (< v 10000) 4 (ite (< v 100000) 5
 (ite (< v 1000000) 6 (ite (< v 10000000) 7 (ite (< v 100000000) 8 (ite (< v 1000000000) 9 (ite (< v 10000000000) 10
 (ite (< v 100000000000) 11 (ite (< v 1000000000000) 12 (ite (< v 10000000000000) 13 (ite (< v 100000000000000) 14
 (ite (< v 1000000000000000) 15 (ite (< v 10000000000000000) 16 (ite (< v 100000000000000000) 17
 (ite (< v 1000000000000000000) 18 (ite (< v 10000000000000000000) 19 20)))))))))))))))))))))
(declare-const v Int)
(assert (and (< 0 v) (< v 18446744073709551616)))
(assert (not (= (nd0 (div v 10)) (- (nd0 v) 1))))
(check-sat)
