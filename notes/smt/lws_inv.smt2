; (LWs).Write loop invariant preservation with ghost trace
(declare-sort Dest 0)
(declare-sort Ev 0)
(declare-fun mkWrite (Dest Int) Ev)          ; event constructor (dest, payload ref)
(declare-fun S (Int) Dest)                   ; the LWs slice contents
(declare-const n Int)
(declare-const p Int)
(declare-fun T0 (Int) Ev)  (declare-const t0 Int)   ; trace at function entry
(declare-fun T1 (Int) Ev)  (declare-const t1 Int)   ; trace at loop head (iteration i)
(declare-fun T2 (Int) Ev)  (declare-const t2 Int)   ; trace after the invoke
(declare-const i Int)
(assert (and (<= 0 i) (< i n) (<= 0 t0)))
; invariant at head
(assert (= t1 (+ t0 i)))
(assert (forall ((k Int)) (=> (and (<= 0 k) (< k t0)) (= (T1 k) (T0 k)))))
(assert (forall ((k Int)) (=> (and (<= 0 k) (< k i)) (= (T1 (+ t0 k)) (mkWrite (S k) p)))))
; effect of invoke w.Write(p) with w = S[i]: append one event (interface-method contract)
(assert (= t2 (+ t1 1)))
(assert (forall ((k Int)) (=> (and (<= 0 k) (< k t1)) (= (T2 k) (T1 k)))))
(assert (= (T2 t1) (mkWrite (S i) p)))
; invariant at i+1 (negated)
(assert (not (and (= t2 (+ t0 (+ i 1)))
   (forall ((k Int)) (=> (and (<= 0 k) (< k t0)) (= (T2 k) (T0 k))))
   (forall ((k Int)) (=> (and (<= 0 k) (< k (+ i 1))) (= (T2 (+ t0 k)) (mkWrite (S k) p)))))))
(check-sat)
