package slog

import (
	"bytes"
	"context"
	"encoding/json"
	logslog "log/slog"
	"strings"
	"testing"
)

// TestC15R3Demo2BetweenLevelsRoundDown checks that a log/slog level lying
// between two standard ones is logged (and gated) as the standard level
// below it: WARN+2 is a warning, INFO+1 is an info.
func TestC15R3Demo2BetweenLevelsRoundDown(t *testing.T) {
	var buf bytes.Buffer
	logger := New("c15d2").SetJSONMode(true)
	logger.SetWriter(&buf)
	logger.SetErrorWriter(&buf)
	ctx := context.Background()

	emit := func(holding Level, lvl logslog.Level, msg string) (level string, emitted bool) {
		t.Helper()
		logger.SetLevel(holding)
		buf.Reset()
		logger.Log(ctx, lvl, msg)
		out := strings.TrimSpace(buf.String())
		if out == "" {
			return "", false
		}
		if strings.Contains(out, "\n") {
			t.Fatalf("expected at most one line, got %q", out)
		}
		var m map[string]any
		if err := json.Unmarshal([]byte(out), &m); err != nil {
			t.Fatalf("cannot parse %q: %v", out, err)
		}
		if m["msg"] != msg {
			t.Fatalf("msg = %#v, want %q", m["msg"], msg)
		}
		level, _ = m["level"].(string)
		return level, true
	}

	// the standard levels are their namesakes
	for _, c := range []struct {
		lvl  logslog.Level
		want string
	}{
		{logslog.LevelInfo, "info"},
		{logslog.LevelWarn, "warning"},
		{logslog.LevelError, "error"},
	} {
		if got, ok := emit(InfoLevel, c.lvl, "named"); !ok || got != c.want {
			t.Fatalf("Log(%v) => level %q (emitted=%v), want %q", c.lvl, got, ok, c.want)
		}
	}

	// WARN+2 is a warning, not an error
	if got, ok := emit(InfoLevel, logslog.LevelWarn+2, "warn+2"); !ok || got != "warning" {
		t.Fatalf("Log(WARN+2) => level %q (emitted=%v), want \"warning\"", got, ok)
	}
	// ... so a logger admitting only errors must drop it
	if got, ok := emit(ErrorLevel, logslog.LevelWarn+2, "warn+2 gated"); ok {
		t.Fatalf("Log(WARN+2) on an ErrorLevel logger was emitted as %q, want nothing", got)
	}

	// INFO+1 is an info, not a warning
	if got, ok := emit(InfoLevel, logslog.LevelInfo+1, "info+1"); !ok || got != "info" {
		t.Fatalf("Log(INFO+1) => level %q (emitted=%v), want \"info\"", got, ok)
	}
	// ... so a logger admitting warnings and above must drop it
	if got, ok := emit(WarnLevel, logslog.LevelInfo+1, "info+1 gated"); ok {
		t.Fatalf("Log(INFO+1) on a WarnLevel logger was emitted as %q, want nothing", got)
	}
}
