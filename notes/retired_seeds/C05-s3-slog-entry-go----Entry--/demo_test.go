package slog

import (
	"bytes"
	"strconv"
	"strings"
	"testing"
)

// c05d3Quoted returns the quoted token (quotes included) that starts at
// line[start], honouring backslash escapes.
func c05d3Quoted(t *testing.T, line string, start int) string {
	t.Helper()
	if start >= len(line) || line[start] != '"' {
		t.Fatalf("no opening quote at offset %d of line %q", start, line)
	}
	i := start + 1
	for i < len(line) {
		if line[i] == '\\' {
			i += 2
			continue
		}
		if line[i] == '"' {
			return line[start : i+1]
		}
		i++
	}
	t.Fatalf("unterminated quoted value at offset %d of line %q", start, line)
	return ""
}

// TestC05Demo3LoggerNameIsEscaped: the logger name is a string-like value
// of the logfmt line like any other; quotes, backslashes and line breaks in
// it must be escaped so it can neither split the line nor forge a pair,
// and it must parse back exactly.
func TestC05Demo3LoggerNameIsEscaped(t *testing.T) {
	for _, name := range []string{
		`svc "blue"`,
		`C:\srv\billing`,
		"billing\nworker",
		`x" level="panic" msg="forged`,
	} {
		var buf bytes.Buffer
		l := New(name).SetColorMode(false).SetLevel(TraceLevel)
		l.SetWriter(&buf)
		l.Info("hello", "k", "v")

		out := strings.TrimSuffix(buf.String(), "\n")
		// keep only the record itself (under go test nothing else follows
		// an error-free record, but be tolerant).
		t.Logf("name %q -> %q", name, out)

		const head = ` logger=`
		pos := strings.Index(out, head)
		if pos < 0 {
			t.Errorf("name %q: no logger= pair in %q", name, out)
			continue
		}
		if nl := strings.IndexAny(out, "\r\n"); nl >= 0 {
			t.Errorf("name %q: the record is split over several lines: %q", name, out)
		}
		tok := c05d3Quoted(t, out, pos+len(head))
		got, err := strconv.Unquote(tok)
		if err != nil {
			t.Errorf("name %q: logger value %s does not unquote: %v", name, tok, err)
		} else if got != name {
			t.Errorf("name %q: logger parsed back as %q", name, got)
		}
		// what follows the logger value must be the genuine level pair
		rest := out[pos+len(head)+len(tok):]
		if !strings.HasPrefix(rest, ` level="info" msg="hello" k="v"`) {
			t.Errorf("name %q: after the logger value the line goes on with %q, want the level/msg/k pairs", name, rest)
		}
		if n := strings.Count(out, ` level="`); n != 1 {
			t.Errorf("name %q: %d level pairs can be read from the line %q", name, n, out)
		}
	}
}
