package slog

import (
	"bytes"
	"context"
	"encoding/json"
	"strings"
	"testing"
	"time"
)

// TestC04R2Demo3CallerUnknownFrame turns the caller member on and writes
// records whose call site cannot be resolved (a zero program counter handed
// to WriteThru, and a skip count running off the top of the stack). The
// record must still be one line holding one valid JSON object.
func TestC04R2Demo3CallerUnknownFrame(t *testing.T) {
	defer SaveFlagsAndMod(Lcaller)()

	var buf bytes.Buffer
	l := New("c04demo3").SetJSONMode(true).SetLevel(InfoLevel)
	l.SetWriter(&buf)
	l.SetErrorWriter(&buf)

	check := func(what, wantMsg string) {
		t.Helper()
		out := buf.String()
		if strings.Count(out, "\n") != 1 || !strings.HasSuffix(out, "\n") {
			t.Fatalf("%s: record is not exactly one line: %q", what, out)
		}
		var m map[string]any
		if err := json.Unmarshal([]byte(strings.TrimSuffix(out, "\n")), &m); err != nil {
			t.Fatalf("%s: record is not valid JSON: %v\n%s", what, err, out)
		}
		if m["msg"] != wantMsg || m["level"] != "info" || m["logger"] != "c04demo3" {
			t.Fatalf("%s: fixed members damaged: %#v", what, m)
		}
		if m["k"] != float64(1) {
			t.Fatalf("%s: attribute k decoded to %#v, want 1", what, m["k"])
		}
		if _, ok := m["caller"].(map[string]any); !ok {
			t.Fatalf("%s: caller decoded to %#v, want an object", what, m["caller"])
		}
	}

	// a resolvable call site, as a reference
	buf.Reset()
	l.Info("known site", "k", 1)
	check("known call site", "known site")

	// no program counter available (what a bridge without caller info hands over)
	buf.Reset()
	l.WriteThru(context.Background(), InfoLevel, time.Now(), 0, "no pc", NewAttrs("k", 1))
	check("zero pc via WriteThru", "no pc")

	// too many frames skipped: nothing is left to report
	buf.Reset()
	l.SetSkip(512)
	l.Info("deep skip", "k", 1)
	l.SetSkip(0)
	check("skip beyond the stack", "deep skip")
}
