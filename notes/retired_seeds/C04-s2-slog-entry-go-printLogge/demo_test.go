package slog

import (
	"bytes"
	"encoding/json"
	"strings"
	"testing"
)

// TestC04Demo2NamedLoggerRecordDecodes logs one record through an unnamed
// logger and one through a named logger, both in JSON mode, and expects
// every record to be one line holding one JSON object whose members carry
// the logger name (if any), the level, the message and the attributes.
func TestC04Demo2NamedLoggerRecordDecodes(t *testing.T) {
	for _, name := range []string{"", "svc.db"} {
		var buf bytes.Buffer
		var l *Entry
		if name == "" {
			l = New().SetJSONMode(true).SetWriter(&buf)
		} else {
			l = New(name).SetJSONMode(true).SetWriter(&buf)
		}

		l.Info("connected", "host", "db-1", "port", 5432, "tls", true)

		out := buf.String()
		if strings.Count(out, "\n") != 1 || !strings.HasSuffix(out, "\n") {
			t.Fatalf("logger %q: record is not exactly one line: %q", name, out)
		}

		var rec map[string]any
		if err := json.Unmarshal([]byte(out), &rec); err != nil {
			t.Fatalf("logger %q: record is not valid JSON: %v\n%s", name, err, out)
		}

		if name != "" {
			if got, _ := rec["logger"].(string); got != name {
				t.Errorf("logger: got %q, want %q\n%s", got, name, out)
			}
		} else if _, ok := rec["logger"]; ok {
			t.Errorf("unnamed logger must not print a logger member\n%s", out)
		}
		if got, _ := rec["level"].(string); got != "info" {
			t.Errorf("logger %q: level: got %q, want %q\n%s", name, got, "info", out)
		}
		if got, _ := rec["msg"].(string); got != "connected" {
			t.Errorf("logger %q: msg: got %q, want %q\n%s", name, got, "connected", out)
		}
		if _, ok := rec["time"].(string); !ok {
			t.Errorf("logger %q: time member missing\n%s", name, out)
		}
		if got, _ := rec["host"].(string); got != "db-1" {
			t.Errorf("logger %q: host: got %q, want %q\n%s", name, got, "db-1", out)
		}
		if got, _ := rec["port"].(float64); got != 5432 {
			t.Errorf("logger %q: port: got %v, want 5432\n%s", name, rec["port"], out)
		}
		if got, ok := rec["tls"].(bool); !ok || !got {
			t.Errorf("logger %q: tls: got %v, want true\n%s", name, rec["tls"], out)
		}
	}
}
