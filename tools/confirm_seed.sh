#!/bin/bash
# usage: confirm_seed.sh <prop> <N> <seed-id>
# Confirms a sub-agent's change in its scratch worktree /tmp/seed-<prop>: patch applies, builds, the existing
# suite passes, the demo fails with the patch and passes without. On success stores it as /verif/seeded/<seed-id>/.
set -u
prop=$1; n=$2; id=$3
wt=/tmp/seed-$prop; out=/tmp/seedout-$prop; [ -d $out ] || out=$wt/OUT
export GOFLAGS= GOPROXY=off GOSUMDB=off GOTOOLCHAIN=local
cd $wt || exit 2
git checkout -q -- . 2>/dev/null; git clean -fdq slog tests 2>/dev/null
place=$(jq -r .demo_placement $out/meta$n.json); run=$(jq -r .demo_run $out/meta$n.json)
mkdir -p /tmp/seedtmp-$prop; cp $out/demo*_test.go /tmp/seedtmp-$prop/ 2>/dev/null; [ "$out" = "$wt/OUT" ] && rm -f $out/demo*_test.go
log=/tmp/seedtmp-$prop/confirm$n.log; : > $log
# demo passes without the patch
cp /tmp/seedtmp-$prop/demo${n}_test.go $place
if ! (eval "$run") >>$log 2>&1; then echo "REJECT $id: demo fails on unmodified code"; rm -f $place; cp /tmp/seedtmp-$prop/demo*_test.go $out/ 2>/dev/null; exit 1; fi
rm -f $place
# patch applies, builds, suite passes
if ! git apply $out/patch$n.diff 2>>$log; then echo "REJECT $id: patch does not apply"; cp /tmp/seedtmp-$prop/demo*_test.go $out/ 2>/dev/null; exit 1; fi
if ! (go build ./... && go test -count=1 ./... && cd tests && go test -count=1 ./...) >>$log 2>&1; then echo "REJECT $id: build or suite fails with patch"; git checkout -q -- .; cp /tmp/seedtmp-$prop/demo*_test.go $out/ 2>/dev/null; exit 1; fi
cp /tmp/seedtmp-$prop/demo${n}_test.go $place
if (eval "$run") >>$log 2>&1; then echo "REJECT $id: demo passes with patch"; rm -f $place; git checkout -q -- .; cp /tmp/seedtmp-$prop/demo*_test.go $out/ 2>/dev/null; exit 1; fi
rm -f $place; git checkout -q -- .
cp /tmp/seedtmp-$prop/demo*_test.go $out/ 2>/dev/null
d=/verif/seeded/$id; mkdir -p $d
cp $out/patch$n.diff $d/patch.diff; cp $out/demo${n}_test.go $d/demo_test.go
jq --arg id "$id" '. + {seed_id:$id, confirmed:"patch applies to the scratch worktree, go build ./... ok, go test ./... and tests/ pass with the patch, demo fails with the patch and passes without (tools/confirm_seed.sh)"}' $out/meta$n.json > $d/meta.json
echo "CONFIRMED $id -> $d"
