#!/bin/bash
# Must-fail corpus: every patch in /verif/mutants (and /verif/seeded/*/patch.diff) must make the
# check of its property exit 1, and the unchanged tree must pass. Patches are applied to /repo and
# reverted straight afterwards.  usage: selftest.sh [filter]
cd /verif
filter="$1"
pass=0; fail=0
if ! git -C /repo diff --quiet; then echo "/repo has uncommitted changes; refusing"; exit 2; fi
for p in mutants/*.patch seeded/*/patch.diff; do
  [ -f "$p" ] || continue
  case "$p" in *"$filter"*) ;; *) continue;; esac
  if [[ "$p" == mutants/* ]]; then prop=$(basename "$p" | cut -d- -f1); else prop=$(jq -r .property "$(dirname "$p")/meta.json"); fi
  if ! git -C /repo apply "$PWD/$p" 2>/tmp/selftest.err; then echo "SKIP $p (does not apply: $(head -1 /tmp/selftest.err))"; continue; fi
  if ! (cd /repo && go build ./... 2>/tmp/selftest.err); then echo "SKIP $p (does not compile)"; git -C /repo checkout -- .; continue; fi
  out=$(bin/lvc check -p "$prop" -noevidence -t ${T:-15} 2>&1); rc=$?
  git -C /repo checkout -- .
  if [ $rc -eq 1 ]; then
    pass=$((pass+1)); echo "KILLED $p  [$(echo "$out" | grep -c '^VIOLATION') violation line(s): $(echo "$out" | grep '^VIOLATION' | head -1 | sed 's/.*replay\///' | cut -c1-110)]"
  else
    fail=$((fail+1)); echo "MISSED $p (exit $rc)"
  fi
done
echo "selftest: $pass killed, $fail missed"
[ $fail -eq 0 ]
