#!/bin/bash
# runs hedzr/logg's own test suite (all modules in /repo) as the baseline does; prints ok/FAIL summary
export GOFLAGS= GOPROXY=off GOSUMDB=off GOTOOLCHAIN=local
rc=0
for m in . tests bench; do
  [ -f /repo/$m/go.mod ] || continue
  (cd /repo/$m && go test -vet=off -count=1 -timeout 25m ./... 2>&1 | grep -v "^ok\|no test files" | tail -15; exit ${PIPESTATUS[0]}) || rc=1
done
[ $rc -eq 0 ] && echo "suite: ok" || echo "suite: FAIL"
exit $rc
