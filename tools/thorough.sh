#!/bin/bash
# thorough tier of one property:
#   1. the deductive check itself with every solver (z3 4.8, z3 5.1, cvc5) on every obligation and long timeouts;
#      its exit code and VIOLATION / KNOWN-FINDING lines are the result of this script;
#   2. canaries: every must-fail patch of this property (mutants/<id>-*.patch, seeded/<id>-*/patch.diff) is
#      applied to a scratch copy of /repo's current working tree (under /verif/work, never to /repo itself) and
#      the quick check is run on that copy; a canary the check does not kill says something about the check,
#      not about /repo, so it is reported in the evidence file (coverage.canaries) and on stdout as
#      "CANARY-SURVIVED", never as a VIOLATION. Patches that no longer apply to the current tree are skipped.
# usage: thorough.sh <property id>
p=$1
cd /verif || exit 2
bin/lvc check -p "$p" -tier thorough
rc=$?
scratch=/verif/work/canary_$p
rm -rf "$scratch"; mkdir -p "$scratch"
killed=0; survived=0; skipped=0; names=()
for patch in mutants/$p-*.patch seeded/$p-*/patch.diff; do
  [ -f "$patch" ] || continue
  rsync -a --delete --exclude .git /repo/ "$scratch/repo/"
  if ! (cd "$scratch/repo" && patch -p1 -s --dry-run < "/verif/$patch" >/dev/null 2>&1); then skipped=$((skipped+1)); continue; fi
  (cd "$scratch/repo" && patch -p1 -s < "/verif/$patch" >/dev/null 2>&1)
  if ! (cd "$scratch/repo" && GOFLAGS= GOPROXY=off GOSUMDB=off GOTOOLCHAIN=local go build ./... >/dev/null 2>&1); then skipped=$((skipped+1)); continue; fi
  bin/lvc check -p "$p" -repo "$scratch/repo" -noevidence -t 15 >/dev/null 2>&1
  if [ $? -eq 1 ]; then killed=$((killed+1)); else survived=$((survived+1)); names+=("$patch"); echo "CANARY-SURVIVED property=$p $patch (the check does not detect this known property-breaking change)"; fi
done
rm -rf "$scratch"
ev=evidence/$p.json
if [ -f "$ev" ]; then
  tmp=$(mktemp /verif/work/ev.XXXXXX)
  jq --argjson k $killed --argjson s $survived --argjson sk $skipped --arg names "${names[*]}" \
     '.coverage.canaries = {killed:$k, survived:$s, skipped_not_applicable:$sk, survived_names:$names, note:"must-fail patches applied to a scratch copy of the working tree; quick check expected to exit 1"}' "$ev" > "$tmp" && mv "$tmp" "$ev"
fi
echo "canaries property=$p: $killed killed, $survived survived, $skipped skipped"
exit $rc
