#!/usr/bin/env python3
# Generates the C03 contracts of dualWriter (view = three lists) and of the Entry wrappers.
out=[]
def lst(field): return f"s.{field}"
# --- set / add / remove on Normal and Error
for meth, field, other in [("SetWriter","Normal","Error"),("SetErrorWriter","Error","Normal")]:
    out += [f"//@ func (*dualWriter).{meth}", "//@   props C03", "//@   requires s != nil",
            f"//@   assigns s.{field}",
            f"//@   ensures [C03.set-nil] implies(isnil(w), unchanged(s.{field}))",
            f"//@   ensures [C03.set] implies(!isnil(w), len(s.{field}) == 1 && specWrapped(s.{field}[0], w) && (typeis(w, LogWriter) || fresh(dyn(s.{field}[0], *logwr))))",
            "//@"]
for meth, field in [("Add","Normal"),("AddErrorWriter","Error")]:
    out += [f"//@ func (*dualWriter).{meth}", "//@   props C03", "//@   requires s != nil",
            f"//@   assigns s.{field}, s.{field}[:]",
            f"//@   ensures [C03.add-nil] implies(isnil(w), unchanged(s.{field}))",
            f"//@   ensures [C03.add] implies(!isnil(w), len(s.{field}) == old(len(s.{field})) + 1 && specWrapped(s.{field}[len(s.{field})-1], w) && forall(j, 0, old(len(s.{field})), s.{field}[j] == old(s.{field}[j])))",
            f"//@   ensures grown(s.{field}, old(s.{field})) || isnil(w)",
            "//@"]
out += ["//@ func (*dualWriter).Set", "//@   props C03", "//@   requires s != nil", "//@   assigns s.Normal, s.Normal[:]",
        "//@   ensures [C03.set-nil] implies(isnil(w), unchanged(s.Normal))",
        "//@   ensures [C03.set] implies(!isnil(w), len(s.Normal) == 1 && specWrapped(s.Normal[0], w))", "//@"]
for meth, field in [("Remove","Normal"),("RemoveErrorWriter","Error")]:
    L=f"s.{field}"
    out += [f"//@ func (*dualWriter).{meth}", "//@   props C03", "//@   requires s != nil",
            f"//@   assigns {L}, {L}[:]",
            f"//@   ensures [C03.remove-none] implies(isnil(w) || !exists(k, 0, old(len({L})), specDenotes(old({L}[k]), w)), unchanged({L}))",
            f"//@   ensures [C03.remove] forall(i, 0, old(len({L})), implies(!isnil(w) && specDenotes(old({L}[i]), w) && forall(j, 0, i, !specDenotes(old({L}[j]), w)), len({L}) == old(len({L})) - 1 && forall(j, 0, i, {L}[j] == old({L}[j])) && forall(j, i, len({L}), {L}[j] == old({L}[j+1]))))",
            f"//@   loop 1 invariant [C03.scan] rangeindex >= -1 && (rangeindex < len({L}) || rangeindex == -1) && unchanged({L}) && forall(j, 0, rangeindex+1, !specDenotes({L}[j], w))",
            "//@"]
print("\n".join(out))

# --- leveled writers, resets, and the Entry wrappers (appended)
out=[]
L="s.leveled"
same_others = "forall(k, implies(k != lvl, has(s.leveled, Level(k)) == old(has(s.leveled, Level(k))) && s.leveled[Level(k)] == old(s.leveled[Level(k)])))"
out += ["//@ func (*dualWriter).AddLevelWriter", "//@   props C03", "//@   requires s != nil",
        "//@   assigns s.leveled, mapof(s.leveled), s.leveled[lvl][:]",
        "//@   ensures [C03.addlevel-nil] implies(isnil(w), unchanged(s.leveled))",
        "//@   ensures [C03.addlevel] implies(!isnil(w), s.leveled != nil && has(s.leveled, lvl) && len(s.leveled[lvl]) == old(len(s.leveled[lvl])) + 1 && specWrapped(s.leveled[lvl][len(s.leveled[lvl])-1], w) && forall(j, 0, old(len(s.leveled[lvl])), s.leveled[lvl][j] == old(s.leveled[lvl][j])))",
        "//@   ensures [C03.addlevel-others] implies(!isnil(w), " + same_others + ")", "//@"]
out += ["//@ func (*dualWriter).ResetLevelWriter", "//@   props C03", "//@   requires s != nil",
        "//@   assigns mapof(s.leveled)",
        "//@   ensures [C03.resetlevel] !has(s.leveled, lvl) && " + same_others, "//@"]
out += ["//@ func (*dualWriter).ResetLevelWriters", "//@   props C03", "//@   requires s != nil", "//@   assigns s.leveled",
        "//@   ensures [C03.resetlevels] s.leveled == nil", "//@"]
out += ["//@ func (*dualWriter).Clear", "//@   props C03", "//@   requires s != nil", "//@   assigns s.Normal, s.Error",
        "//@   ensures [C03.clear] len(s.Normal) == 0 && len(s.Error) == 0", "//@"]
out += ["//@ func (*dualWriter).Reset", "//@   props C03", "//@   requires s != nil", "//@   assigns s.Normal, s.Error, s.leveled",
        "//@   ensures [C03.reset] result == s && s.leveled == nil && len(s.Normal) == 1 && len(s.Error) == 1",
        "//@   ensures [C03.reset-std] typeis(s.Normal[0], *filewr) && dyn(s.Normal[0], *filewr) != nil && dyn(s.Normal[0], *filewr).File == os.Stdout && typeis(s.Error[0], *filewr) && dyn(s.Error[0], *filewr) != nil && dyn(s.Error[0], *filewr).File == os.Stderr", "//@"]
out += ["//@ func newDualWriter", "//@   props C03",
        "//@   ensures [C03.new] result != nil && fresh(result) && result.leveled == nil && len(result.Normal) == 1 && len(result.Error) == 1",
        "//@   ensures [C03.new-std] typeis(result.Normal[0], *filewr) && dyn(result.Normal[0], *filewr).File == os.Stdout && typeis(result.Error[0], *filewr) && dyn(result.Error[0], *filewr).File == os.Stderr", "//@"]
# Entry wrappers: forward to the logger's own writer set (created on demand), same argument, return the receiver
for ent, dw, args in [("SetWriter","SetWriter","callee.w == wr"),("AddWriter","Add","callee.w == wr"),("SetErrorWriter","SetErrorWriter","callee.w == wr"),
                      ("AddErrorWriter","AddErrorWriter","callee.w == wr"),("AddLevelWriter","AddLevelWriter","callee.w == w && callee.lvl == lvl"),
                      ("RemoveLevelWriter","RemoveLevelWriter","callee.w == w && callee.lvl == lvl"),("ResetLevelWriter","ResetLevelWriter","callee.lvl == lvl"),
                      ("ResetLevelWriters","ResetLevelWriters","true"),("ResetWriters","Reset","true")]:
    out += [f"//@ func (*Entry).{ent}", "//@   props C03 C10", "//@   requires s != nil", "//@   assigns everything", "//@   maypanic",
            "//@   ensures [C03.C10.ret] result == s && s.writer != nil && (s.writer == old(s.writer) || (old(s.writer) == nil && fresh(s.writer)))",
            f"//@   at call (*dualWriter).{dw} assert [C03.forward] callee.s == s.writer && {args}", "//@"]
for ent, dw in [("RemoveWriter","Remove"),("RemoveErrorWriter","RemoveErrorWriter")]:
    out += [f"//@ func (*Entry).{ent}", "//@   props C03 C10", "//@   requires s != nil", "//@   assigns everything", "//@   maypanic",
            "//@   ensures [C03.C10.ret] result == s && s.writer == old(s.writer)",
            "//@   ensures [C03.remove-fresh] implies(old(s.writer) == nil, unchanged(s.writer))",
            f"//@   at call (*dualWriter).{dw} assert [C03.forward] callee.s == s.writer && callee.w == wr && s.writer != nil", "//@"]
print("\n".join(out))
