#!/usr/bin/env python3
# Generates the C03 contracts of dualWriter (view = three lists) and of the Entry wrappers.
out=[]
def lst(field): return f"s.{field}"
# --- set / add / remove on Normal and Error
for meth, field, other in [("SetWriter","Normal","Error"),("SetErrorWriter","Error","Normal")]:
    out += [f"//@ func (*dualWriter).{meth}", "//@   props C03", "//@   requires s != nil",
            f"//@   assigns s.{field}",
            f"//@   ensures [C03.set-nil] implies(isnil(w), unchanged(s.{field}))",
            f"//@   ensures [C03.set] implies(!isnil(w), len(s.{field}) == 1 && specWrapped(s.{field}[0], w) && (typeis(w, LogWriter) || fresh(dyn(s.{field}[0], *logwr))))",
            "//@"]
for meth, field in [("Add","Normal"),("AddErrorWriter","Error")]:
    out += [f"//@ func (*dualWriter).{meth}", "//@   props C03", "//@   requires s != nil",
            f"//@   assigns s.{field}, s.{field}[:]",
            f"//@   ensures [C03.add-nil] implies(isnil(w), unchanged(s.{field}))",
            f"//@   ensures [C03.add] implies(!isnil(w), len(s.{field}) == old(len(s.{field})) + 1 && specWrapped(s.{field}[len(s.{field})-1], w) && forall(j, 0, old(len(s.{field})), s.{field}[j] == old(s.{field}[j])))",
            f"//@   ensures grown(s.{field}, old(s.{field})) || isnil(w)",
            "//@"]
out += ["//@ func (*dualWriter).Set", "//@   props C03", "//@   requires s != nil", "//@   assigns s.Normal, s.Normal[:]",
        "//@   ensures [C03.set-nil] implies(isnil(w), unchanged(s.Normal))",
        "//@   ensures [C03.set] implies(!isnil(w), len(s.Normal) == 1 && specWrapped(s.Normal[0], w))", "//@"]
for meth, field in [("Remove","Normal"),("RemoveErrorWriter","Error")]:
    L=f"s.{field}"
    out += [f"//@ func (*dualWriter).{meth}", "//@   props C03", "//@   requires s != nil",
            f"//@   assigns {L}, {L}[:]",
            f"//@   ensures [C03.remove-none] implies(isnil(w) || !exists(k, 0, old(len({L})), specDenotes(old({L}[k]), w)), unchanged({L}))",
            f"//@   ensures [C03.remove] forall(i, 0, old(len({L})), implies(!isnil(w) && specDenotes(old({L}[i]), w) && forall(j, 0, i, !specDenotes(old({L}[j]), w)), len({L}) == old(len({L})) - 1 && forall(j, 0, i, {L}[j] == old({L}[j])) && forall(j, i, len({L}), {L}[j] == old({L}[j+1]))))",
            f"//@   loop 1 invariant [C03.scan] rangeindex >= -1 && (rangeindex < len({L}) || rangeindex == -1) && unchanged({L}) && forall(j, 0, rangeindex+1, !specDenotes({L}[j], w))",
            "//@"]
print("\n".join(out))
