#!/bin/bash
# re-generates the generated tail sections of /repo/slog/zz_verif_contracts.go
cd /repo/slog && python3 - <<'PY'
import subprocess
p='zz_verif_contracts.go'
s=open(p).read()
marker='\n// ---------------------------------------------------------------- C19 buffer API (generated)\n'
if marker in s:
    s=s[:s.index(marker)]
gen=subprocess.run(['python3','/verif/tools/gen_c19.py'],capture_output=True,text=True).stdout
open(p,'w').write(s+marker+gen)
PY
