#!/usr/bin/env python3
# Shared functional specification of the bytes.Buffer API (property C19), instantiated twice:
# for logg's (*PrintCtx) methods and for the reference implementation (*bytes.Buffer) of the
# toolchain's standard library. Both real bodies are verified against the same clauses.
import sys
SPEC = r'''
func {T}.Len
  requires {r} != nil && 0 <= {r}.off && {r}.off <= len({r}.buf)
  ensures [C19.len] result == len({r}.buf) - {r}.off

func {T}.Cap
  requires {r} != nil
  ensures [C19.cap] result == cap({r}.buf)

func {T}.Available
  requires {r} != nil
  ensures [C19.avail] result == cap({r}.buf) - len({r}.buf)

func {T}.empty
  requires {r} != nil
  ensures [C19.empty] result == (len({r}.buf) <= {r}.off)

func {T}.Reset
  requires {r} != nil
  assigns {r}.buf, {r}.off, {r}.lastRead
  ensures [C19.reset] len({r}.buf) == 0 && {r}.off == 0 && {r}.lastRead == opInvalid && samearray({r}.buf, old({r}.buf)) && cap({r}.buf) == old(cap({r}.buf))

func {T}.Truncate
  requires {r} != nil && 0 <= {r}.off && {r}.off <= len({r}.buf)
  assigns {r}.buf, {r}.off, {r}.lastRead
  panics [C19.truncate-range] when n != 0 && (n < 0 || n > len({r}.buf) - {r}.off)
  ensures [C19.truncate0] implies(n == 0, len({r}.buf) == 0 && {r}.off == 0 && {r}.lastRead == opInvalid && samearray({r}.buf, old({r}.buf)))
  ensures [C19.truncate] implies(n != 0, len({r}.buf) == old({r}.off) + n && {r}.off == old({r}.off) && {r}.lastRead == opInvalid && samearray({r}.buf, old({r}.buf)))
  ensures [C19.cap] cap({r}.buf) == old(cap({r}.buf))

func {T}.Bytes
  requires {r} != nil && 0 <= {r}.off && {r}.off <= len({r}.buf)
  ensures [C19.bytes] result == {r}.buf[{r}.off:]

func {T}.tryGrowByReslice
  requires {r} != nil && n >= 0
  assigns {r}.buf
  ensures [C19.reslice-yes] implies(n <= old(cap({r}.buf) - len({r}.buf)), result1 && result0 == old(len({r}.buf)) && len({r}.buf) == old(len({r}.buf)) + n && samearray({r}.buf, old({r}.buf)) && cap({r}.buf) == old(cap({r}.buf)))
  ensures [C19.reslice-no] implies(n > old(cap({r}.buf) - len({r}.buf)), !result1 && result0 == 0 && {r}.buf == old({r}.buf))

func {G}growSlice$1
  maypanic
  at panic assert [C19.toolarge-value] value == ErrTooLarge

func {G}growSlice
  ignoredefer
  requires n >= 0 && n <= 9223372036854775807 - len(b) && 2*cap(b) >= 0
  ensures [C19.growslice-len] len(result) == len(b) && cap(result) >= len(b) + n
  ensures [C19.growslice-fresh] implies(len(b) + n > 0 || cap(b) > 0, fresh(result))
  ensures [C19.growslice-content] forall(i, 0, len(b), result[i] == b[i])

func {T}.grow
  requires {r} != nil && 0 <= {r}.off && {r}.off <= len({r}.buf) && n >= 0
  assigns {r}.buf, {r}.off, {r}.lastRead, {r}.buf[:]
  panics [C19.toolarge] when n > cap({r}.buf) - len({r}.buf) && !(isnil({r}.buf) && n <= smallBufferSize) && n > cap({r}.buf)/2 - (len({r}.buf) - {r}.off) && cap({r}.buf) > maxInt - cap({r}.buf) - n
  ensures [C19.grow-index] result == len({r}.buf) - n && result - {r}.off == old(len({r}.buf) - {r}.off)
  ensures [C19.grow-inv] 0 <= {r}.off && {r}.off <= result
  ensures [C19.grow-content] forall(i, 0, old(len({r}.buf) - {r}.off), {r}.buf[{r}.off + i] == old({r}.buf[{r}.off + i]))
  ensures [C19.grow-array] grown({r}.buf, old({r}.buf))
  ensures [C19.grow-off] implies(old({r}.off) == 0, {r}.off == 0)
  ensures [C19.grow-lastread] {r}.lastRead == old({r}.lastRead) || {r}.lastRead == opInvalid

func {T}.Grow
  requires {r} != nil && 0 <= {r}.off && {r}.off <= len({r}.buf)
  assigns {r}.buf, {r}.off, {r}.lastRead, {r}.buf[:]
  maypanic
  ensures [C19.Grow] len({r}.buf) - {r}.off == old(len({r}.buf) - {r}.off) && cap({r}.buf) - len({r}.buf) >= n
  ensures [C19.Grow-content] forall(i, 0, old(len({r}.buf) - {r}.off), {r}.buf[{r}.off + i] == old({r}.buf[{r}.off + i]))

func {T}.Write
  requires {r} != nil && 0 <= {r}.off && {r}.off <= len({r}.buf)
  requires [C19.noalias] !sameobject(p, {r}.buf) || len(p) == 0
  assigns {r}.buf, {r}.off, {r}.lastRead, {r}.buf[:]
  ensures [C19.write-result] n == len(p) && err == nil && {r}.lastRead == opInvalid
  ensures [C19.write-len] len({r}.buf) - {r}.off == old(len({r}.buf) - {r}.off) + len(p) && 0 <= {r}.off
  ensures [C19.write-keep] forall(i, 0, old(len({r}.buf) - {r}.off), {r}.buf[{r}.off + i] == old({r}.buf[{r}.off + i]))
  ensures [C19.write-new] forall(i, 0, len(p), {r}.buf[{r}.off + old(len({r}.buf) - {r}.off) + i] == old(p[i]))
  ensures [C19.write-array] grown({r}.buf, old({r}.buf))
  ensures [C19.write-off] implies(old({r}.off) == 0, {r}.off == 0)

func {T}.WriteString
  requires {r} != nil && 0 <= {r}.off && {r}.off <= len({r}.buf)
  assigns {r}.buf, {r}.off, {r}.lastRead, {r}.buf[:]
  ensures [C19.write-result] n == len({s}) && err == nil && {r}.lastRead == opInvalid
  ensures [C19.write-len] len({r}.buf) - {r}.off == old(len({r}.buf) - {r}.off) + len({s}) && 0 <= {r}.off
  ensures [C19.write-keep] forall(i, 0, old(len({r}.buf) - {r}.off), {r}.buf[{r}.off + i] == old({r}.buf[{r}.off + i]))
  ensures [C19.write-new] forall(i, 0, len({s}), {r}.buf[{r}.off + old(len({r}.buf) - {r}.off) + i] == {s}[i])
  ensures [C19.write-array] grown({r}.buf, old({r}.buf))
  ensures [C19.write-off] implies(old({r}.off) == 0, {r}.off == 0)

func {T}.WriteByte
  requires {r} != nil && 0 <= {r}.off && {r}.off <= len({r}.buf)
  assigns {r}.buf, {r}.off, {r}.lastRead, {r}.buf[:]
  ensures [C19.write-result] result == nil && {r}.lastRead == opInvalid
  ensures [C19.write-len] len({r}.buf) - {r}.off == old(len({r}.buf) - {r}.off) + 1 && 0 <= {r}.off
  ensures [C19.write-keep] forall(i, 0, old(len({r}.buf) - {r}.off), {r}.buf[{r}.off + i] == old({r}.buf[{r}.off + i]))
  ensures [C19.write-new] {r}.buf[len({r}.buf) - 1] == c
  ensures [C19.write-array] grown({r}.buf, old({r}.buf))
  ensures [C19.write-off] implies(old({r}.off) == 0, {r}.off == 0)

func {T}.WriteRune
  requires {r} != nil && 0 <= {r}.off && {r}.off <= len({r}.buf)
  assigns {r}.buf, {r}.off, {r}.lastRead, {r}.buf[:]
  ensures [C19.rune-result] err == nil && n == len({r}.buf) - {r}.off - old(len({r}.buf) - {r}.off) && 0 <= {r}.off
  ensures [C19.rune-ascii] implies(0 <= r && r < 128, n == 1 && {r}.buf[len({r}.buf) - 1] == r)
  ensures [C19.rune-multi] implies(!(0 <= r && r < 128), n == uf("utf8len", r) && forall(i, 0, n, {r}.buf[len({r}.buf) - n + i] == uf("utf8byte", r, i)))
  ensures [C19.write-keep] forall(i, 0, old(len({r}.buf) - {r}.off), {r}.buf[{r}.off + i] == old({r}.buf[{r}.off + i]))
  ensures [C19.write-off] implies(old({r}.off) == 0, {r}.off == 0)
  ensures [C19.rune-lastread] {r}.lastRead == opInvalid

func {T}.Read
  requires {r} != nil && 0 <= {r}.off && {r}.off <= len({r}.buf)
  requires [C19.eof] !isnil(io.EOF)
  requires [C19.noalias] !sameobject(p, {r}.buf) || len(p) == 0
  assigns {r}.buf, {r}.off, {r}.lastRead, p[:]
  ensures [C19.read-empty] implies(old(len({r}.buf) <= {r}.off), n == 0 && len({r}.buf) == 0 && {r}.off == 0 && {r}.lastRead == opInvalid && implies(len(p) == 0, err == nil) && implies(len(p) != 0, err == io.EOF))
  ensures [C19.read-n] implies(old(len({r}.buf) > {r}.off), err == nil && n == ite(len(p) <= old(len({r}.buf) - {r}.off), len(p), old(len({r}.buf) - {r}.off)) && {r}.off == old({r}.off) + n && {r}.buf == old({r}.buf))
  ensures [C19.read-data] implies(old(len({r}.buf) > {r}.off), forall(i, 0, n, p[i] == old({r}.buf[{r}.off + i])))
  ensures [C19.read-lastread] implies(old(len({r}.buf) > {r}.off), {r}.lastRead == ite(n > 0, opRead, opInvalid))

func {T}.Next
  requires {r} != nil && 0 <= {r}.off && {r}.off <= len({r}.buf)
  assigns {r}.off, {r}.lastRead
  panics [C19.next-range] when n < 0
  ensures [C19.next] len(result) == ite(n <= old(len({r}.buf) - {r}.off), n, old(len({r}.buf) - {r}.off)) && {r}.off == old({r}.off) + len(result)
  ensures [C19.next-data] sameobject(result, {r}.buf) && forall(i, 0, len(result), result[i] == {r}.buf[old({r}.off) + i])
  ensures [C19.next-lastread] {r}.lastRead == ite(len(result) > 0, opRead, opInvalid)

func {T}.ReadByte
  requires {r} != nil && 0 <= {r}.off && {r}.off <= len({r}.buf)
  requires [C19.eof] !isnil(io.EOF)
  assigns {r}.buf, {r}.off, {r}.lastRead
  ensures [C19.readbyte-empty] implies(old(len({r}.buf) <= {r}.off), result0 == 0 && result1 == io.EOF && len({r}.buf) == 0 && {r}.off == 0 && {r}.lastRead == opInvalid)
  ensures [C19.readbyte] implies(old(len({r}.buf) > {r}.off), result1 == nil && result0 == old({r}.buf[{r}.off]) && {r}.off == old({r}.off) + 1 && {r}.lastRead == opRead && {r}.buf == old({r}.buf))

func {T}.UnreadByte
  requires {r} != nil
  assigns {r}.off, {r}.lastRead
  ensures [C19.unreadbyte-err] implies(old({r}.lastRead) == opInvalid, result == errUnreadByte && {r}.off == old({r}.off) && {r}.lastRead == opInvalid)
  ensures [C19.unreadbyte] implies(old({r}.lastRead) != opInvalid, result == nil && {r}.lastRead == opInvalid && {r}.off == ite(old({r}.off) > 0, old({r}.off) - 1, old({r}.off)))

func {T}.UnreadRune
  requires {r} != nil
  assigns {r}.off, {r}.lastRead
  ensures [C19.unreadrune-err] implies(old({r}.lastRead) <= opInvalid, result != nil && {r}.off == old({r}.off) && {r}.lastRead == old({r}.lastRead))
  ensures [C19.unreadrune] implies(old({r}.lastRead) > opInvalid, result == nil && {r}.lastRead == opInvalid && {r}.off == ite(old({r}.off) >= old({r}.lastRead), old({r}.off) - old({r}.lastRead), old({r}.off)))

func {T}.ReadRune
  requires {r} != nil && 0 <= {r}.off && {r}.off <= len({r}.buf)
  requires [C19.eof] !isnil(io.EOF)
  assigns {r}.buf, {r}.off, {r}.lastRead
  ensures [C19.readrune-empty] implies(old(len({r}.buf) <= {r}.off), r == 0 && size == 0 && err == io.EOF && len({r}.buf) == 0 && {r}.off == 0 && {r}.lastRead == opInvalid)
  ensures [C19.readrune-ascii] implies(old(len({r}.buf) > {r}.off) && old({r}.buf[{r}.off]) < 128, r == old({r}.buf[{r}.off]) && size == 1 && err == nil && {r}.off == old({r}.off) + 1 && {r}.lastRead == opReadRune1)
  ensures [C19.readrune-multi] implies(old(len({r}.buf) > {r}.off) && old({r}.buf[{r}.off]) >= 128, err == nil && r == old(uf("utf8dec", contentid({r}.buf[{r}.off:]))) && size == old(uf("utf8declen", contentid({r}.buf[{r}.off:]))) && {r}.off == old({r}.off) + size && {r}.lastRead == size)

func {T}.readSlice
  requires {r} != nil && 0 <= {r}.off && {r}.off <= len({r}.buf)
  requires [C19.eof] !isnil(io.EOF)
  assigns {r}.off, {r}.lastRead
  ensures [C19.readslice] samearray(line, old({r}.buf[{r}.off:])) && {r}.off == old({r}.off) + len(line) && {r}.lastRead == opRead
  ensures [C19.readslice-found] implies(err == nil, len(line) >= 1 && line[len(line)-1] == delim && forall(i, 0, len(line)-1, line[i] != delim))
  ensures [C19.readslice-eof] implies(err != nil, err == io.EOF && {r}.off == len({r}.buf) && forall(i, 0, len(line), line[i] != delim))
  ensures [C19.readslice-data] forall(i, 0, len(line), line[i] == {r}.buf[old({r}.off) + i])

func {T}.ReadBytes
  requires {r} != nil && 0 <= {r}.off && {r}.off <= len({r}.buf)
  requires [C19.eof] !isnil(io.EOF)
  assigns {r}.off, {r}.lastRead
  ensures [C19.readbytes] {r}.off == old({r}.off) + len(line) && {r}.lastRead == opRead
  ensures [C19.readbytes-found] implies(err == nil, len(line) >= 1 && line[len(line)-1] == delim && forall(i, 0, len(line)-1, line[i] != delim))
  ensures [C19.readbytes-eof] implies(err != nil, err == io.EOF && {r}.off == len({r}.buf) && forall(i, 0, len(line), line[i] != delim))
  ensures [C19.readbytes-data] forall(i, 0, len(line), line[i] == {r}.buf[old({r}.off) + i])
  ensures [C19.readbytes-copy] len(line) == 0 || fresh(line)

func {T}.ReadString
  requires {r} != nil && 0 <= {r}.off && {r}.off <= len({r}.buf)
  requires [C19.eof] !isnil(io.EOF)
  assigns {r}.off, {r}.lastRead
  ensures [C19.readstring] {r}.off == old({r}.off) + len(line) && {r}.lastRead == opRead
  ensures [C19.readstring-eof] implies(err != nil, err == io.EOF && {r}.off == len({r}.buf))
  ensures [C19.readstring-data] contentid(line) == old(contentid({r}.buf[{r}.off:{r}.off+len(line)]))

func {T}.String
  requires {r} == nil || (0 <= {r}.off && {r}.off <= len({r}.buf))
  ensures [C19.string-nil] implies({r} == nil, result == "<nil>")
  ensures [C19.string] implies({r} != nil && 0 <= {r}.off && {r}.off <= len({r}.buf), contentid(result) == contentid({r}.buf[{r}.off:]))

func {T}.WriteTo
  requires {r} != nil && 0 <= {r}.off && {r}.off <= len({r}.buf)
  requires !isnil(w) && !isnil(io.ErrShortWrite)
  assigns everything
  maypanic
  ensures [C19.writeto-empty] implies(old(len({r}.buf) <= {r}.off), n == 0 && err == nil && len({r}.buf) == 0 && {r}.off == 0 && ghost.ioN == old(ghost.ioN))
  ensures [C19.writeto-once] implies(old(len({r}.buf) > {r}.off), ghost.ioN == old(ghost.ioN) + 1 && ghost.ioArg == old(ident({r}.buf[{r}.off:])) && ghost.ioDest == ident(w))
  ensures [C19.writeto-result] implies(old(len({r}.buf) > {r}.off), n == ghost.ioRet && implies(!isnil(ghost.ioErr), err == ghost.ioErr) && implies(isnil(ghost.ioErr) && n != old(len({r}.buf) - {r}.off), err == io.ErrShortWrite) && implies(isnil(ghost.ioErr) && n == old(len({r}.buf) - {r}.off), err == nil && len({r}.buf) == 0 && {r}.off == 0))
  ensures [C19.writeto-consumed] implies(old(len({r}.buf) > {r}.off) && !(isnil(ghost.ioErr) && n == old(len({r}.buf) - {r}.off)), len({r}.buf) - {r}.off == old(len({r}.buf) - {r}.off) - n)
  ensures [C19.writeto-lastread] {r}.lastRead == opInvalid

func {T}.ReadFrom
  requires {r} != nil && 0 <= {r}.off && {r}.off <= len({r}.buf) && !isnil(r) && !isnil(io.EOF)
  assigns everything
  maypanic
  ensures [C19.readfrom-keep] 0 <= {r}.off && {r}.off <= len({r}.buf) && len({r}.buf) - {r}.off == old(len({r}.buf) - {r}.off) + n && n >= 0
  ensures [C19.readfrom-err] err != io.EOF && {r}.lastRead == opInvalid
  ensures [C19.readfrom-all] n == ghost.readSum - old(ghost.readSum)
  loop 1 invariant [C19.readfrom-inv] 0 <= {r}.off && {r}.off <= len({r}.buf) && len({r}.buf) - {r}.off == old(len({r}.buf) - {r}.off) + n && n >= 0 && {r}.lastRead == opInvalid && !isnil(io.EOF) && n == ghost.readSum - old(ghost.readSum)

func {T}.AvailableBuffer
  requires {r} != nil
  ensures [C19.availbuf] result == {r}.buf[len({r}.buf):]
'''
def inst(T, r, s, G, props):
    out=[]
    for line in SPEC.strip('\n').split('\n'):
        l=line.replace('{T}',T).replace('{r}',r).replace('{s}',s).replace('{G}',G)
        if l.startswith('func '):
            out.append('//@ '+l)
            out.append('//@   props '+props)
        elif l.strip()=='' :
            out.append('')
        else:
            out.append('//@ '+l)
    return '\n'.join(out)
print("// ---- generated by /verif/tools/gen_c19.py: the bytes.Buffer specification, for logg's PrintCtx ...")
print(inst('(*PrintCtx)','s','str','', 'C19 C02'))
print()
print("// ---- ... and for the reference implementation: bytes.Buffer of the toolchain's standard library")
print(inst('bytes::(*Buffer)','b','s','bytes::', 'C19'))
print("""
// constructors (different names, same clauses)
//@ func NewPrintCtx
//@   props C19
//@   ensures [C19.new] result != nil && fresh(result) && result.buf == buf && result.off == 0 && result.lastRead == opInvalid

//@ func bytes::NewBuffer
//@   props C19
//@   ensures [C19.new] result != nil && fresh(result) && result.buf == buf && result.off == 0 && result.lastRead == opInvalid

//@ func NewPrintCtxString
//@   props C19
//@   ensures [C19.newstring] result != nil && fresh(result) && result.off == 0 && result.lastRead == opInvalid && len(result.buf) == len(s) && contentid(result.buf) == contentid(s)

//@ func bytes::NewBufferString
//@   props C19
//@   ensures [C19.newstring] result != nil && fresh(result) && result.off == 0 && result.lastRead == opInvalid && len(result.buf) == len(s) && contentid(result.buf) == contentid(s)
""")
