#!/usr/bin/env python3
# Shared functional specification of the bytes.Buffer API (property C19), instantiated twice:
# for logg's (*PrintCtx) methods and for the reference implementation (*bytes.Buffer) of the
# toolchain's standard library. Both real bodies are verified against the same clauses.
import sys
SPEC = r'''
func {T}.Len
  requires {r} != nil && 0 <= {r}.off && {r}.off <= len({r}.buf)
  ensures [C19.len] result == len({r}.buf) - {r}.off

func {T}.Cap
  requires {r} != nil
  ensures [C19.cap] result == cap({r}.buf)

func {T}.Available
  requires {r} != nil
  ensures [C19.avail] result == cap({r}.buf) - len({r}.buf)

func {T}.empty
  requires {r} != nil
  ensures [C19.empty] result == (len({r}.buf) <= {r}.off)

func {T}.Reset
  requires {r} != nil
  assigns {r}.buf, {r}.off, {r}.lastRead
  ensures [C19.reset] len({r}.buf) == 0 && {r}.off == 0 && {r}.lastRead == opInvalid && samearray({r}.buf, old({r}.buf)) && cap({r}.buf) == old(cap({r}.buf))

func {T}.Truncate
  requires {r} != nil && 0 <= {r}.off && {r}.off <= len({r}.buf)
  assigns {r}.buf, {r}.off, {r}.lastRead
  panics [C19.truncate-range] when n != 0 && (n < 0 || n > len({r}.buf) - {r}.off)
  ensures [C19.truncate0] implies(n == 0, len({r}.buf) == 0 && {r}.off == 0 && {r}.lastRead == opInvalid && samearray({r}.buf, old({r}.buf)))
  ensures [C19.truncate] implies(n != 0, len({r}.buf) == old({r}.off) + n && {r}.off == old({r}.off) && {r}.lastRead == opInvalid && samearray({r}.buf, old({r}.buf)))
  ensures [C19.cap] cap({r}.buf) == old(cap({r}.buf))

func {T}.Bytes
  requires {r} != nil && 0 <= {r}.off && {r}.off <= len({r}.buf)
  ensures [C19.bytes] result == {r}.buf[{r}.off:]

func {T}.tryGrowByReslice
  requires {r} != nil && n >= 0
  assigns {r}.buf
  ensures [C19.reslice-yes] implies(n <= old(cap({r}.buf) - len({r}.buf)), result1 && result0 == old(len({r}.buf)) && len({r}.buf) == old(len({r}.buf)) + n && samearray({r}.buf, old({r}.buf)) && cap({r}.buf) == old(cap({r}.buf)))
  ensures [C19.reslice-no] implies(n > old(cap({r}.buf) - len({r}.buf)), !result1 && result0 == 0 && {r}.buf == old({r}.buf))

func {G}growSlice
  ignoredefer
  requires n >= 0 && n <= 9223372036854775807 - len(b) && 2*cap(b) >= 0
  ensures [C19.growslice-len] len(result) == len(b) && cap(result) >= len(b) + n
  ensures [C19.growslice-fresh] implies(len(b) + n > 0 || cap(b) > 0, fresh(result))
  ensures [C19.growslice-content] forall(i, 0, len(b), result[i] == b[i])

func {T}.grow
  requires {r} != nil && 0 <= {r}.off && {r}.off <= len({r}.buf) && n >= 0
  assigns {r}.buf, {r}.off, {r}.lastRead, {r}.buf[:]
  panics [C19.toolarge] when n > cap({r}.buf) - len({r}.buf) && !(isnil({r}.buf) && n <= smallBufferSize) && n > cap({r}.buf)/2 - (len({r}.buf) - {r}.off) && cap({r}.buf) > maxInt - cap({r}.buf) - n
  ensures [C19.grow-index] result == len({r}.buf) - n && result - {r}.off == old(len({r}.buf) - {r}.off)
  ensures [C19.grow-inv] 0 <= {r}.off && {r}.off <= result
  ensures [C19.grow-content] forall(i, 0, old(len({r}.buf) - {r}.off), {r}.buf[{r}.off + i] == old({r}.buf[{r}.off + i]))
  ensures [C19.grow-array] grown({r}.buf, old({r}.buf))
  ensures [C19.grow-off] implies(old({r}.off) == 0, {r}.off == 0)
  ensures [C19.grow-lastread] {r}.lastRead == old({r}.lastRead) || {r}.lastRead == opInvalid

func {T}.Grow
  requires {r} != nil && 0 <= {r}.off && {r}.off <= len({r}.buf)
  assigns {r}.buf, {r}.off, {r}.lastRead, {r}.buf[:]
  maypanic
  ensures [C19.Grow] len({r}.buf) - {r}.off == old(len({r}.buf) - {r}.off) && cap({r}.buf) - len({r}.buf) >= n
  ensures [C19.Grow-content] forall(i, 0, old(len({r}.buf) - {r}.off), {r}.buf[{r}.off + i] == old({r}.buf[{r}.off + i]))

func {T}.Write
  requires {r} != nil && 0 <= {r}.off && {r}.off <= len({r}.buf)
  requires [C19.noalias] !sameobject(p, {r}.buf) || len(p) == 0
  assigns {r}.buf, {r}.off, {r}.lastRead, {r}.buf[:]
  ensures [C19.write-result] n == len(p) && err == nil && {r}.lastRead == opInvalid
  ensures [C19.write-len] len({r}.buf) - {r}.off == old(len({r}.buf) - {r}.off) + len(p) && 0 <= {r}.off
  ensures [C19.write-keep] forall(i, 0, old(len({r}.buf) - {r}.off), {r}.buf[{r}.off + i] == old({r}.buf[{r}.off + i]))
  ensures [C19.write-new] forall(i, 0, len(p), {r}.buf[{r}.off + old(len({r}.buf) - {r}.off) + i] == old(p[i]))
  ensures [C19.write-array] grown({r}.buf, old({r}.buf))
  ensures [C19.write-off] implies(old({r}.off) == 0, {r}.off == 0)

func {T}.WriteString
  requires {r} != nil && 0 <= {r}.off && {r}.off <= len({r}.buf)
  assigns {r}.buf, {r}.off, {r}.lastRead, {r}.buf[:]
  ensures [C19.write-result] n == len({s}) && err == nil && {r}.lastRead == opInvalid
  ensures [C19.write-len] len({r}.buf) - {r}.off == old(len({r}.buf) - {r}.off) + len({s}) && 0 <= {r}.off
  ensures [C19.write-keep] forall(i, 0, old(len({r}.buf) - {r}.off), {r}.buf[{r}.off + i] == old({r}.buf[{r}.off + i]))
  ensures [C19.write-new] forall(i, 0, len({s}), {r}.buf[{r}.off + old(len({r}.buf) - {r}.off) + i] == {s}[i])
  ensures [C19.write-array] grown({r}.buf, old({r}.buf))
  ensures [C19.write-off] implies(old({r}.off) == 0, {r}.off == 0)

func {T}.WriteByte
  requires {r} != nil && 0 <= {r}.off && {r}.off <= len({r}.buf)
  assigns {r}.buf, {r}.off, {r}.lastRead, {r}.buf[:]
  ensures [C19.write-result] result == nil && {r}.lastRead == opInvalid
  ensures [C19.write-len] len({r}.buf) - {r}.off == old(len({r}.buf) - {r}.off) + 1 && 0 <= {r}.off
  ensures [C19.write-keep] forall(i, 0, old(len({r}.buf) - {r}.off), {r}.buf[{r}.off + i] == old({r}.buf[{r}.off + i]))
  ensures [C19.write-new] {r}.buf[len({r}.buf) - 1] == c
  ensures [C19.write-array] grown({r}.buf, old({r}.buf))
  ensures [C19.write-off] implies(old({r}.off) == 0, {r}.off == 0)
'''
def inst(T, r, s, G, props):
    out=[]
    for line in SPEC.strip('\n').split('\n'):
        l=line.replace('{T}',T).replace('{r}',r).replace('{s}',s).replace('{G}',G)
        if l.startswith('func '):
            out.append('//@ '+l)
            out.append('//@   props '+props)
        elif l.strip()=='' :
            out.append('')
        else:
            out.append('//@ '+l)
    return '\n'.join(out)
print("// ---- generated by /verif/tools/gen_c19.py: the bytes.Buffer specification, for logg's PrintCtx ...")
print(inst('(*PrintCtx)','s','str','', 'C19 C02'))
print()
print("// ---- ... and for the reference implementation: bytes.Buffer of the toolchain's standard library")
print(inst('bytes::(*Buffer)','b','s','bytes::', 'C19'))
