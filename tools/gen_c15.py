#!/usr/bin/env python3
# Generates (a) the contract of convertAttrToField and its helpers (printed first, for /repo/slog/zz_verif_c15.go)
# and (b) with --ext, the assumed contracts of log/slog.Value's accessors (for externals/std.lvc).
import sys
V="attr.Value"
def U(name, v): return f'uf("slog.{name}", {v}.num, ident({v}.any))'
kinds=[ # kind constant, accessor, Go type of the stored value, how the accessor result is named
 ("KindBool","Bool","bool", lambda v: f'({U("bool",v)} != 0)'),
 ("KindDuration","Duration","time.Duration", lambda v: U("duration",v)),
 ("KindFloat64","Float64","float64", None),
 ("KindInt64","Int64","int64", lambda v: U("int64",v)),
 ("KindUint64","Uint64","uint64", lambda v: U("uint64",v)),
]
if "--ext" in sys.argv:
    out=["// C15: log/slog.Value's accessors are deterministic functions of the value (named by uninterpreted",
         "// functions of its two fields); Resolve never returns a LogValuer (documented).",
         "//@ ext (log/slog.Value).Kind", f'//@   ensures result == {U("kind","v")}', ""]
    for k,acc,ty,res in kinds:
        if res is None:
            out += [f"//@ ext (log/slog.Value).{acc}", f'//@   ensures ident(result) == {U(acc.lower(),"v")}', ""]
        else:
            out += [f"//@ ext (log/slog.Value).{acc}", f"//@   ensures result == {res('v')}", ""]
    out += ["//@ ext (log/slog.Value).String", f'//@   ensures contentid(result) == {U("string","v")}', "",
            "//@ ext (log/slog.Value).Time", f'//@   posteffect ghost.ioTime = result', "",
            "//@ ext (log/slog.Value).Any", f'//@   ensures ident(result) == {U("any","v")}', "",
            "//@ ext (log/slog.Value).Group", "//@   posteffect ghost.ioGrp = ident(result)", "",
            "//@ ext (log/slog.Value).Resolve", f'//@   ensures {U("kind","result")} != KindLogValuer', "//@   posteffect ghost.ioResNum = result.num", "//@   posteffect ghost.ioResAny = ident(result.any)", ""]
    print("\n".join(out)); sys.exit(0)
K=U("kind",V)
out=["// convertAttrToField: one clause per log/slog value kind: the key is kept and the value is the one the",
     "// kind's accessor returns, with its Go type. Groups convert their members (same count, same order, each",
     "// through convertAttrToField), LogValuers are resolved first (Resolve never yields a LogValuer).",
     "//@ func convertAttrToField", "//@   props C15", "//@   assigns everything", "//@   maypanic", "//@   keeps Entry.*, dualWriter.*, map[string]*Entry, handler4LogSlog.Logger"]
for k,acc,ty,res in kinds:
    if res is None:
        out.append(f'//@   ensures [C15.kind-{acc.lower()}] implies(old({K}) == logslog.{k}, typeis(result, *kvp) && dyn(result, *kvp) != nil && dyn(result, *kvp).key == attr.Key && typeis(dyn(result, *kvp).val, {ty}) && ident(dyn(dyn(result, *kvp).val, {ty})) == old({U(acc.lower(),V)}))')
        continue
    out.append(f"//@   ensures [C15.kind-{acc.lower()}] implies(old({K}) == logslog.{k}, typeis(result, *kvp) && dyn(result, *kvp) != nil && dyn(result, *kvp).key == attr.Key && typeis(dyn(result, *kvp).val, {ty}) && dyn(dyn(result, *kvp).val, {ty}) == old({res(V)}))")
out.append(f'//@   ensures [C15.kind-string] implies(old({K}) == logslog.KindString, typeis(result, *kvp) && dyn(result, *kvp) != nil && dyn(result, *kvp).key == attr.Key && typeis(dyn(result, *kvp).val, string) && contentid(dyn(dyn(result, *kvp).val, string)) == old({U("string",V)}))')
out.append(f'//@   ensures [C15.kind-time] implies(old({K}) == logslog.KindTime, typeis(result, *kvp) && dyn(result, *kvp) != nil && dyn(result, *kvp).key == attr.Key && typeis(dyn(result, *kvp).val, time.Time) && dyn(dyn(result, *kvp).val, time.Time) == ghost.ioTime)')
out.append(f'//@   ensures [C15.kind-any] implies(old({K}) != logslog.KindBool && old({K}) != logslog.KindTime && old({K}) != logslog.KindDuration && old({K}) != logslog.KindFloat64 && old({K}) != logslog.KindInt64 && old({K}) != logslog.KindString && old({K}) != logslog.KindUint64 && old({K}) != logslog.KindGroup && old({K}) != logslog.KindLogValuer, typeis(result, *kvp) && dyn(result, *kvp) != nil && dyn(result, *kvp).key == attr.Key && ident(dyn(result, *kvp).val) == old({U("any",V)}))')
out.append(f'//@   ensures [C15.kind-group] implies(old({K}) == logslog.KindGroup, typeis(result, *gkvp) && dyn(result, *gkvp) != nil && dyn(result, *gkvp).key == attr.Key)')
out.append(f'//@   at call convertGroupToFields assert [C15.group-members] ident(callee.attrs) == ghost.ioGrp')
out.append(f'//@   at call Group assert [C15.group-build] callee.key == attr.Key && len(callee.args) == 1 && typeis(callee.args[0], Attrs) && ident(dyn(callee.args[0], Attrs)) == ghost.ioFields')
out.append(f'//@   at call convertAttrToField assert [C15.resolve] callee.attr.Key == attr.Key && callee.attr.Value.num == ghost.ioResNum && ident(callee.attr.Value.any) == ghost.ioResAny && {U("kind","callee.attr.Value")} != logslog.KindLogValuer')
out.append("")
out += ["// Group(key, members): a group attribute under that key (its member list is built by argsToAttrs)",
        "//@ func Group", "//@   props C15", "//@   assigns everything", "//@   maypanic", "//@   keeps Entry.*, dualWriter.*, map[string]*Entry, handler4LogSlog.Logger",
        "//@   ensures [C15.group] typeis(result, *gkvp) && dyn(result, *gkvp) != nil && dyn(result, *gkvp).key == key", ""]
out += ["//@ func convertGroupToFields", "//@   props C15", "//@   assigns everything", "//@   maypanic", "//@   keeps Entry.*, dualWriter.*, map[string]*Entry, handler4LogSlog.Logger",
        "//@   posteffect ghost.ioFields = ident(ret)",
        "//@   ensures [C15.members] len(ret) == len(attrs)",
        "//@   loop 1 invariant len(ret) == rangeindex + 1 && rangeindex < len(attrs)",
        "//@   at call convertAttrToField assert [C15.member] 0 <= rangeindex && rangeindex < len(attrs)", ""]
print("\n".join(out))
