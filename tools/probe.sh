#!/bin/bash
# usage: probe.sh <file.smt2> '<extra assertion>'  -> runs z3-new with the assertion inserted before check-sat
f="$1"; shift
n=$(grep -n "^(check-sat)" "$f" | head -1 | cut -d: -f1)
head -n $((n-1)) "$f" > /tmp/probe.$$.smt2
for a in "$@"; do echo "$a" >> /tmp/probe.$$.smt2; done
tail -n +$n "$f" >> /tmp/probe.$$.smt2
z3-new -T:20 /tmp/probe.$$.smt2 | head -${LINES_OUT:-1}
rm -f /tmp/probe.$$.smt2
