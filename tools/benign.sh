#!/bin/bash
# Must-stay-quiet corpus: behaviour-preserving edits (renamed local, reordered independent statements, comments
# that shift line numbers, an unused struct field, an unrelated new function). Each patch of /verif/benign is
# applied to a scratch copy of /repo's working tree (under /verif/work) and every registered quick check must
# exit 0 on it.
cd /verif
bad=0
for patch in benign/*.patch; do
  scratch=/verif/work/benign; rm -rf "$scratch"; mkdir -p "$scratch"
  rsync -a --exclude .git /repo/ "$scratch/repo/"
  if ! (cd "$scratch/repo" && patch -p1 -s < "/verif/$patch"); then echo "SKIP $patch (does not apply)"; continue; fi
  (cd "$scratch/repo" && GOFLAGS= GOPROXY=off GOSUMDB=off GOTOOLCHAIN=local go build ./...) || { echo "SKIP $patch (does not compile)"; continue; }
  for p in $(jq -r '.checks[].property_id' MANIFEST.json); do
    bin/lvc check -p $p -repo "$scratch/repo" -noevidence >/dev/null 2>&1 || { echo "ALARM $patch property=$p"; bad=$((bad+1)); }
  done
  rm -rf "$scratch"
done
echo "benign: $bad alarms"
[ $bad -eq 0 ]
