#!/bin/bash
# usage: mk.sh <name> <file-relative-to-/repo> <old> <new>   -> /verif/mutants/<name>.patch
cd /repo
name=$1; file=$2; shift 2
python3 - "$file" "$@" <<'PY'
import sys
f=sys.argv[1]; old=sys.argv[2]; new=sys.argv[3]
s=open(f).read()
assert s.count(old)>=1, ("pattern not found", old)
s=s.replace(old,new,1)
open(f,'w').write(s)
PY
git diff > /verif/mutants/$name.patch; git checkout -- $file; echo "$name: $(wc -l < /verif/mutants/$name.patch) lines"
