#!/usr/bin/env python3
# Regenerates /verif/MANIFEST.json from the table below (keeps the file valid at all times).
import json, subprocess
props=[json.loads(l) for l in open('/verif/properties.jsonl')]
ENV="GOFLAGS=-mod=mod GOPROXY=off GOSUMDB=off GOTOOLCHAIN=local GOWORK=off"
claimed = {
 "C01": dict(cat="proof", ref="§4 C01",
   text="Deductive proof, function by function, that every public entry point (verbs, Context verbs, LogAttrs/Logit/Log, printf verbs, package-level functions, Verbose) emits (ghost counter of records entering logContext) iff the admission rule specAdmits - a spec function written from the property statement - admits (logger level, severity), with the severity and receiver of the logContext call fixed by at-call assertions; Level.Enabled itself is proved equal to specAdmits for all levels, all treat-as tables and both debug states. All obligations discharged by z3/cvc5 on every run.",
   note="Trusted: lvc VC generator, go/ssa, solvers; assumed contracts of states.Env().GetDebugMode (ghost.debugMode), sync.Pool, atomic; (*Entry).print / collectArgs are used through assumed monotone ghost contracts here (their bodies are under contract in C02); loggers built with a log/slog handler option and user-defined Logger implementations installed with SetDefault are outside the quantifier.",
   tech="contract-based deductive verification (own WP/VC generator over go/ssa + SMT)"),
 "C20": dict(cat="other", ref="§4 C20",
   text="Deductive proof of totality/in-bounds for the short duration formatter: fmtInt, fmtFrac, fmtMsec, fmtSeconds, shortDurFormat, shortDur are under contract (digit-count spec function specND, loop invariants, frames) and every index/slice/division obligation is discharged for all int64 durations and both styles. The round trip with ParseDuration and the agreement of ParseDuration with time.ParseDuration are not decided yet (see DESIGN); hence level 'other' rather than 'proof'.",
   note="Trusted: lvc VC generator, go/ssa, solvers; int is 64 bit. The parser's digit scanners (leadingInt, leadingFraction) are proved to consume exactly the leading digits, to leave a suffix of the input that starts with a non-digit, and (leadingInt) to fail only on overflow. Not covered: the agreement of ParseDuration with time.ParseDuration on whole strings and the format/parse round trip.",
   tech="contract-based deductive verification (own WP/VC generator over go/ssa + SMT)"),
}
import os
extra = json.load(open('/verif/tools/manifest_extra.json')) if os.path.exists('/verif/tools/manifest_extra.json') else {}
claimed.update(extra.get("claimed", {}))
na_reason = {
 "C08": "all-schedules property: a sequential weakest-precondition calculus has no thread semantics (DESIGN §5)",
 "C18": "string rewriting + regexp + map iteration order: no string theory within reach of the VC generator (DESIGN §5)",
}
na_reason.update(extra.get("not_applicable", {}))
hooks = subprocess.run("git -C /repo log --format=%h --grep='^verif hook' ", shell=True, capture_output=True, text=True).stdout.split()
checks=[]
for p in props:
    i=p["id"]
    if i in claimed:
        c=claimed[i]
        checks.append({"property_id":i,
          "quick_cmd":f"bin/lvc check -p {i} -tier quick",
          "thorough_cmd":f"tools/thorough.sh {i}",
          "evidence_file":f"/verif/evidence/{i}.json",
          "replay_cmd_template":"bin/lvc replay {path}",
          "engine":"lvc",
          "level_claimed":{"category":c["cat"],"text":c["text"],"design_ref":c["ref"]},
          "level_note":c["note"],"technique":c["tech"]})
m={"version":1,
 "setup_cmd":f"cd /verif/engine && {ENV} go build -o /verif/bin/lvc ./cmd/lvc",
 "hooks":{"guard":"verif","enable":"-tags=verif (lvc loads /repo with this tag; the contract files slog/**/zz_verif_contracts.go hold //@ clauses, ghost variables and pure spec functions only)",
   "baseline_off_cmd":"cd /repo && go test -vet=off -count=1 -timeout 25m ./... && cd /repo/tests && go test -vet=off -count=1 ./... && cd /repo/examples/small && go test -vet=off -count=1 ./...",
   "source_commits":hooks,"add_only":True},
 "engines":[{"name":"lvc","path":"/verif/engine","serves_properties":sorted(claimed),"kind_free_text":"own verification-condition generator over go/ssa (NaiveForm) with Gobra-style //@ contracts kept behind build tag verif; obligations discharged by z3 4.8.12 / z3 5.1.0 / cvc5 1.0; counterexamples replayed on the real code through go test -overlay"}],
 "checks":checks,
 "notes":"see DESIGN.md; known_findings.txt lists open findings and fixed defects; tools/selftest.sh runs the must-fail corpus (mutants/, seeded/)",
 "not_applicable":[{"property_id":p["id"],"reason":na_reason.get(p["id"],"within reach of the technique (DESIGN §4) but its contracts are not finished; not claimed")} for p in props if p["id"] not in claimed]}
json.dump(m,open('/verif/MANIFEST.json','w'),indent=1)
print("claimed:",sorted(claimed))
