#!/usr/bin/env python3
# Generates the Set*/With* contracts of property C10 (appended to /repo/slog/zz_verif_c10.go below the marker).
ALL=["name","owner","items","useJSON","useColor","timeLayout","modeUTC","level","attrs","writer","valueStringer","handlerOpt","extraFrames","contextKeys"]
def keeps_all_but(*fields):
    return "//@   keeps " + ", ".join("Entry."+f for f in ALL if f not in fields)
out=[]
# ---- setters whose contracts are not already in the main file: assign exactly their field(s), return the receiver
out += ["//@ func (*Entry).SetLevel", "//@   props C10", "//@   requires s != nil", "//@   assigns s.level, ghost.debugMode",
        "//@   ensures [C10.set] s.level == lvl", "//@   ensures [C10.ret] result == s", ""]
out += ["//@ func (*Entry).SetValueStringer", "//@   props C10", "//@   requires s != nil", "//@   assigns s.valueStringer",
        "//@   ensures [C10.set] s.valueStringer == vs", "//@   ensures [C10.ret] result == s", ""]
out += ["//@ func (*Entry).SetSkip", "//@   props C10", "//@   requires s != nil", "//@   assigns s.extraFrames",
        "//@   ensures [C10.set] s.extraFrames == extraFrames", ""]
out += ["//@ func (*Entry).withSkip", "//@   props C10 C14", "//@   requires s != nil", "//@   assigns s.extraFrames",
        "//@   ensures [C10.C14.set] s.extraFrames == extraFrames", "//@   ensures [C10.ret] result == s", ""]
out += ["//@ func (*Entry).ResetContextKeys", "//@   props C10", "//@   requires s != nil", "//@   assigns s.contextKeys",
        "//@   ensures [C10.set] len(s.contextKeys) == 0", "//@   ensures [C10.ret] result == s", ""]
# appending setters: the receiver's own list grows (into its own spare capacity or a fresh array)
for fn, field, arg in [("SetAttrs","attrs","attrs"),("SetAttrs1","attrs","attrs"),("SetContextKeys","contextKeys","keys")]:
    out += [f"//@ func (*Entry).{fn}", "//@   props C10", "//@   requires s != nil", f"//@   assigns s.{field}, s.{field}[:]",
            f"//@   ensures [C10.set] len(s.{field}) == old(len(s.{field})) + len({arg}) && forall(j, 0, old(len(s.{field})), s.{field}[j] == old(s.{field}[j])) && forall(j, 0, len({arg}), s.{field}[old(len(s.{field}))+j] == old({arg}[j]))",
            f"//@   ensures [C10.own-array] implies(old(cap(s.{field})) == 0 && len({arg}) > 0, fresh(s.{field}))",
            "//@   ensures [C10.ret] result == s", ""]
out += ["//@ func (*Entry).Set", "//@   props C10", "//@   requires s != nil", "//@   assigns everything", "//@   maypanic",
        keeps_all_but("attrs"), "//@   keeps Entry.attrs except s", "//@   keeps dualWriter.*, map[string]*Entry",
        "//@   ensures [C10.ret] result == s", ""]
# ---- With*: a child of the receiver carrying the setting; the receiver and every other logger untouched
def with_block(fn, post, extra_keeps_exc=None, at=None):
    b=[f"//@ func (*Entry).{fn}", "//@   props C10" + (" C11" if fn in ("WithJSONMode","WithColorMode") else "") + (" C03" if fn in ("WithWriter","WithErrorWriter") else ""), "//@   requires s != nil && specFmtInv(s)", "//@   assigns everything", "//@   maypanic",
       keeps_all_but("items"), "//@   keeps Entry.items except s", "//@   keeps map[string]*Entry except old(s.items)", "//@   keeps dualWriter.*",
       "//@   ensures [C10.child] result != nil && fresh(result) && result.owner == s && s.items != nil && (old(s.items) == nil || s.items == old(s.items))",
       f"//@   ensures [C10.carry] {post}"]
    if at: b.append(at)
    b.append("")
    return b
inh="result.level == old(s.level)"
out += with_block("WithJSONMode", "implies(specLastBool(b, true), specFormat(result) == fmtJSON) && implies(!specLastBool(b, true), !result.useJSON && result.useColor == old(s.useColor) && !old(s.useJSON) || !result.useJSON) && "+inh)
out += with_block("WithColorMode", "!result.useJSON && result.useColor == specLastBool(b, true) && "+inh)
out += with_block("WithUTCMode", "result.modeUTC == ite(specLastBool(b, true), 2, 1) && result.useJSON == old(s.useJSON) && result.useColor == old(s.useColor) && "+inh)
out += with_block("WithTimeFormat", "result.useJSON == old(s.useJSON) && result.useColor == old(s.useColor) && "+inh, at="//@   at call (*Entry).SetTimeFormat assert [C10.forward] fresh(callee.s) && callee.layout == layout")
out += with_block("WithLevel", "result.level == lvl && result.useJSON == old(s.useJSON) && result.useColor == old(s.useColor)")
out += with_block("WithAttrs", "len(result.attrs) == len(attrs) && result.useJSON == old(s.useJSON) && result.useColor == old(s.useColor) && "+inh, at="//@   at call (*Entry).SetAttrs assert [C10.forward] fresh(callee.s) && callee.attrs == attrs")
out += with_block("WithAttrs1", "len(result.attrs) == len(attrs) && result.useJSON == old(s.useJSON) && result.useColor == old(s.useColor) && "+inh, at="//@   at call (*Entry).SetAttrs1 assert [C10.forward] fresh(callee.s) && callee.attrs == attrs")
out += with_block("With", "result.useJSON == old(s.useJSON) && result.useColor == old(s.useColor) && "+inh, at="//@   at call (*Entry).Set assert [C10.forward] fresh(callee.s) && callee.args == args")
out += with_block("WithValueStringer", "result.valueStringer == vs && result.useJSON == old(s.useJSON) && result.useColor == old(s.useColor) && "+inh)
out += with_block("WithContextKeys", "len(result.contextKeys) == len(keys) && result.useJSON == old(s.useJSON) && result.useColor == old(s.useColor) && "+inh, at="//@   at call (*Entry).SetContextKeys assert [C10.forward] fresh(callee.s) && callee.keys == keys")
out += with_block("WithWriter", "result.writer != nil && fresh(result.writer) && result.useJSON == old(s.useJSON) && result.useColor == old(s.useColor) && "+inh, at="//@   at call (*Entry).SetWriter assert [C10.forward] fresh(callee.s) && callee.wr == wr")
out += with_block("WithErrorWriter", "result.writer != nil && fresh(result.writer) && result.useJSON == old(s.useJSON) && result.useColor == old(s.useColor) && "+inh, at="//@   at call (*Entry).SetErrorWriter assert [C10.forward] fresh(callee.s) && callee.wr == wr")
print("\n".join(out))
