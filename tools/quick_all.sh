#!/bin/bash
# runs every claimed check (quick tier, short solver timeout) and prints one line each
cd /verif
for p in $(jq -r '.checks[].property_id' MANIFEST.json) "$@"; do bin/lvc check -p $p ${T:+-t $T} | grep -v "^VIOL\|^KNOWN" | tail -1; done
