#!/usr/bin/env python3
# Generates the repetitive C01 entry-point contracts (one block per public entry point).
verbs = [("Panic","PanicLevel"),("Fatal","FatalLevel"),("Error","ErrorLevel"),("Warn","WarnLevel"),("Info","InfoLevel"),
         ("Debug","DebugLevel"),("Trace","TraceLevel"),("Print","AlwaysLevel"),("OK","OKLevel"),("Success","SuccessLevel"),("Fail","FailLevel")]
out = []
def gate(recv_level, sev, tag=""):
    return [f"//@   ensures [C01.gate] implies(!old(specAdmits({recv_level}, {sev})), ghost.emits == old(ghost.emits))",
            f"//@   ensures [C01.emit] implies(old(specAdmits({recv_level}, {sev})), ghost.emits > old(ghost.emits))"]
for v, lvl in verbs:
    out += [f"//@ func (*Entry).{v}", "//@   props C01", "//@   requires s != nil", "//@   assigns everything", "//@   maypanic"] + gate("s.level", lvl) + \
           [f"//@   at call (*Entry).log1 assert [C01.sev] callee.lvl == {lvl} && callee.s == s", "//@"]
for v, lvl in verbs + [("Println","AlwaysLevel")]:
    out += [f"//@ func (*Entry).{v}Context", "//@   props C01", "//@   requires s != nil", "//@   assigns everything", "//@   maypanic"] + gate("s.level", lvl) + \
           [f"//@   at call (*Entry).logContext assert [C01.sev] callee.lvl == {lvl} && callee.s == s", "//@"]
for v in ["LogAttrs", "Logit"]:
    out += [f"//@ func (*Entry).{v}", "//@   props C01", "//@   requires s != nil", "//@   assigns everything", "//@   maypanic"] + gate("s.level", "level") + \
           ["//@   at call (*Entry).logContext assert [C01.sev] callee.lvl == level && callee.s == s", "//@"]
for v, lvl in [("Infof","InfoLevel"),("Warnf","WarnLevel"),("Errorf","ErrorLevel")]:
    out += [f"//@ func (*Entry).{v}", "//@   props C01", "//@   requires s != nil", "//@   assigns everything", "//@   maypanic"] + gate("s.level", lvl) + \
           [f"//@   at call (*Entry).logContext assert [C01.sev] callee.lvl == {lvl} && callee.s == s", "//@"]
# package level
for v, lvl in verbs:
    out += [f"//@ func {v}", "//@   props C01", "//@   requires specDefaultEntry() != nil", "//@   assigns everything", "//@   maypanic"] + gate("specDefaultEntry().level", lvl) + \
           [f"//@   at call logctx assert [C01.sev] callee.lvl == {lvl}", "//@"]
for v, lvl in verbs + [("Println","AlwaysLevel")]:
    out += [f"//@ func {v}Context", "//@   props C01", "//@   requires specDefaultEntry() != nil", "//@   assigns everything", "//@   maypanic"] + gate("specDefaultEntry().level", lvl) + \
           [f"//@   at call logctxctx assert [C01.sev] callee.lvl == {lvl}", "//@"]
print("\n".join(out))
