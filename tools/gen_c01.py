#!/usr/bin/env python3
# Generates the repetitive entry-point contracts (C01 gating + C12 termination), one block per public entry point.
verbs = [("Panic","PanicLevel"),("Fatal","FatalLevel"),("Error","ErrorLevel"),("Warn","WarnLevel"),("Info","InfoLevel"),
         ("Debug","DebugLevel"),("Trace","TraceLevel"),("Print","AlwaysLevel"),("OK","OKLevel"),("Success","SuccessLevel"),("Fail","FailLevel")]
out = []
CALLS = {}
def block(name, recv, sev, callee, callee_assert, const_sev=True, fd="entry"):
    ent = "s" if recv == "s" else "specDefaultEntry()"
    req = "s != nil && specFmtInv(s) && 0 <= s.extraFrames && s.extraFrames <= 1048576" if recv == "s" else "specDefaultEntry() != nil && specFmtInv(specDefaultEntry()) && 0 <= specDefaultEntry().extraFrames && specDefaultEntry().extraFrames <= 1048576"
    lv = f"{ent}.level"
    b = [f"//@ func {name}", "//@   props C01 C02 C12 C13 C14", f"//@   requires {req}", "//@   assigns everything", "//@   keeps PrintCtx.off, PrintCtx.lvl, PrintCtx.prefix, PrintCtx.inGroupedMode, PrintCtx.noQuoted, PrintCtx.dedupeAttrs"]
    term = f"specAdmits({lv}, {sev}) && specInterrupts() && isnil({ent}.handlerOpt)"
    if const_sev:
        if sev == "PanicLevel":
            b.append(f"//@   panics [C12.panic] when {term}")
        elif sev == "FatalLevel":
            b.append(f"//@   exits [C12.exit] when {term}")
    else:
        b.append(f"//@   panics [C12.panic] when {sev} == PanicLevel && {term}")
        b.append(f"//@   exits [C12.exit] when {sev} == FatalLevel && {term}")
    dw = "forall(k, 0, len(specDest(ENT, LVL)), !isnil(specDest(ENT, LVL)[k]) && !typeis(specDest(ENT, LVL)[k], LWs) && implies(typeis(specDest(ENT, LVL)[k], *logwr), dyn(specDest(ENT, LVL)[k], *logwr) != nil && !typeis(dyn(specDest(ENT, LVL)[k], *logwr).Writer, *logwr) && !typeis(dyn(specDest(ENT, LVL)[k], *logwr).Writer, LWs)))".replace("ENT", ent)
    adm = f"old(specAdmits({lv}, {sev}))"
    nh = f"isnil(old({ent}.handlerOpt))"
    b += ["//@   requires defaultWriter != nil && ghost.trN >= 0",
          "//@   requires [INV-dw] " + dw.replace("LVL", sev),
          "//@   requires [INV-dw.warn] " + dw.replace("LVL", "WarnLevel"),
          f"//@   ensures [C02.silent] implies(!{adm}, ghost.trN == old(ghost.trN) && ghost.records == old(ghost.records) && ghost.warns == old(ghost.warns))",
          "//@   ensures [C02.appendonly] ghost.trN >= old(ghost.trN) && forall(k, 0, old(ghost.trN), ghost.trace[k] == old(ghost.trace[k]) && ghost.trTold[k] == old(ghost.trTold[k]))",
          f"//@   ensures [C02.handler] implies(!{nh}, ghost.trN == old(ghost.trN) && ghost.records == old(ghost.records) && ghost.warns == old(ghost.warns))",
          f"//@   ensures [C13.algebra] implies({nh} && {adm}, ghost.records - old(ghost.records) == 1 + ite(old(specAdmits({lv}, WarnLevel)), ghost.warns - old(ghost.warns), 0)) && ghost.warns >= old(ghost.warns) && ghost.warns <= old(ghost.warns) + 1",
          f"//@   ensures [C13.nocascade] implies({sev} == WarnLevel, ghost.warns == old(ghost.warns))",
          f"//@   ensures [C02.deliver] implies({nh} && {adm}, ghost.trN >= old(ghost.trN) + old(len(specDest({ent}, {sev}))))",
          f"//@   ensures [C13.quiet] implies({nh} && {adm} && ghost.warns == old(ghost.warns), ghost.trN == old(ghost.trN) + old(len(specDest({ent}, {sev}))))",
          "//@   ensures [C12.flags] flags == old(flags) && inTesting == old(inTesting)"]
    b += [f"//@   ensures [C01.gate] implies(!old(specAdmits({lv}, {sev})), ghost.emits == old(ghost.emits))",
          f"//@   ensures [C01.emit] implies(old(specAdmits({lv}, {sev})), ghost.emits > old(ghost.emits))",
          f"//@   at call {callee} assert [C01.sev] {callee_assert}"]
    if fd:
        b.append(f"//@   fd {fd}")
    if "getpc" in CALLS.get(name, ""):
        b.append(f"//@   at call getpc assert [C14.extra] callee.extra == {ent}.extraFrames")
        b.append(f"//@   at call (*Entry).logContext assert [C14.pc] callee.stackFrame == ghost.ioPC")
    b.append("//@")
    return b
for v, lvl in verbs:
    out += block(f"(*Entry).{v}", "s", lvl, "(*Entry).log1", f"callee.lvl == {lvl} && callee.s == s")
out += block("(*Entry).Println", "s", "AlwaysLevel", "(*Entry).log1", "callee.lvl == AlwaysLevel && callee.s == s")
for v, lvl in verbs + [("Println","AlwaysLevel")]:
    CALLS[f"(*Entry).{v}Context"] = "getpc"
    out += block(f"(*Entry).{v}Context", "s", lvl, "(*Entry).logContext", f"callee.lvl == {lvl} && callee.s == s")
for v in ["LogAttrs", "Logit", "Log", "Infof", "Warnf", "Errorf", "log1"]:
    CALLS[f"(*Entry).{v}"] = "getpc"
CALLS["logctxctx"] = "getpc"
for v in ["LogAttrs", "Logit"]:
    out += block(f"(*Entry).{v}", "s", "level", "(*Entry).logContext", "callee.lvl == level && callee.s == s", const_sev=False)
out += block("(*Entry).Log", "s", "logsloglevel2Level(level)", "(*Entry).logContext", "callee.lvl == logsloglevel2Level(level) && callee.s == s", const_sev=False)
for v, lvl in [("Infof","InfoLevel"),("Warnf","WarnLevel"),("Errorf","ErrorLevel")]:
    out += block(f"(*Entry).{v}", "s", lvl, "(*Entry).logContext", f"callee.lvl == {lvl} && callee.s == s")
out += block("(*Entry).log1", "s", "lvl", "(*Entry).logContext", "callee.lvl == lvl && callee.s == s", const_sev=False, fd="1")
# package level
for v, lvl in verbs:
    out += block(v, "d", lvl, "logctx", f"callee.lvl == {lvl}")
out += block("Println", "d", "AlwaysLevel", "logctx", "callee.lvl == AlwaysLevel")
for v, lvl in verbs + [("Println","AlwaysLevel")]:
    out += block(f"{v}Context", "d", lvl, "logctxctx", f"callee.lvl == {lvl}")
out += block("logctx", "d", "lvl", "logctxctx", "callee.lvl == lvl", const_sev=False, fd="1")
lc = block("logctxctx", "d", "lvl", "(*Entry).logContext", "callee.lvl == lvl && callee.s == specDefaultEntry()", const_sev=False, fd="")
lc.insert(3, "//@   requires [C14.inc] inc == fd - 1 && 0 <= inc && inc <= 16")
out += lc
print("\n".join(out))
