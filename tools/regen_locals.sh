#!/bin/bash
# records the parameters and named locals of every function under contract (rename tolerance, engine/vc/locals.go);
# run after contracts were written or adapted, on a tree the checks pass on
cd /verif && bin/lvc locals > engine/externals/locals.json.new && mv engine/externals/locals.json.new engine/externals/locals.json && jq 'length' engine/externals/locals.json
